//! Macros and functions for defining the program entrypoint and setting up
//! global handlers.

pub mod lazy;

pub use lazy::{InstructionContext, MaybeAccount};

#[cfg(not(feature = "std"))]
use core::alloc::{GlobalAlloc, Layout};

#[cfg(target_os = "solana")]
pub use alloc::BumpAllocator;
use core::{
    cmp::min,
    mem::{size_of, MaybeUninit},
    slice::from_raw_parts,
};

use crate::{
    account_info::{Account, AccountInfo, MAX_PERMITTED_DATA_INCREASE},
    pubkey::Pubkey,
    BPF_ALIGN_OF_U128, MAX_TX_ACCOUNTS,
};

/// Start address of the memory region used for program heap.
pub const HEAP_START_ADDRESS: u64 = 0x300000000;

/// Length of the heap memory region used for program heap.
pub const HEAP_LENGTH: usize = 32 * 1024;

#[deprecated(
    since = "0.6.0",
    note = "Use `ProgramResult` from the crate root instead"
)]
/// The result of a program execution.
pub type ProgramResult = super::ProgramResult;

#[deprecated(since = "0.6.0", note = "Use `SUCCESS` from the crate root instead")]
/// Return value for a successful program execution.
pub const SUCCESS: u64 = super::SUCCESS;

/// Value used to indicate that a serialized account is not a duplicate.
pub const NON_DUP_MARKER: u8 = u8::MAX;

/// The "static" size of an account in the input buffer.
///
/// This is the size of the account header plus the maximum permitted data increase.
const STATIC_ACCOUNT_DATA: usize = size_of::<Account>() + MAX_PERMITTED_DATA_INCREASE;

/// Declare the program entrypoint and set up global handlers.
///
/// The main difference from the standard (SDK) [`entrypoint`] macro is that this macro represents
/// an entrypoint that does not perform allocations or copies when reading the input buffer.
///
/// [`entrypoint`]: https://docs.rs/solana-program-entrypoint/latest/solana_program_entrypoint/macro.entrypoint.html
///
/// This macro emits the common boilerplate necessary to begin program execution, calling a provided
/// function to process the program instruction supplied by the runtime, and reporting its result to
/// the runtime.
///
/// It also sets up a [global allocator] and [panic handler], using the
/// [`crate::default_allocator!`] and [`crate::default_panic_handler!`] macros.
///
/// The first argument is the name of a function with this type signature:
///
/// ```ignore
/// fn process_instruction(
///     program_id: &Pubkey,      // Public key of the account the program was loaded into
///     accounts: &[AccountInfo], // All accounts required to process the instruction
///     instruction_data: &[u8],  // Serialized instruction-specific data
/// ) -> ProgramResult;
/// ```
/// The argument is defined as an `expr`, which allows the use of any function pointer not just
/// identifiers in the current scope.
///
/// There is a second optional argument that allows to specify the maximum number of accounts
/// expected by instructions of the program. This is useful to reduce the stack size requirement for
/// the entrypoint, as the default is set to [`crate::MAX_TX_ACCOUNTS`]. If the program receives
/// more accounts than the specified maximum, these accounts will be ignored.
///
/// [global allocator]: https://doc.rust-lang.org/stable/alloc/alloc/trait.GlobalAlloc.html
/// [maximum number of accounts]: https://github.com/anza-xyz/agave/blob/ccabfcf84921977202fd06d3197cbcea83742133/runtime/src/bank.rs#L3207-L3219
/// [panic handler]: https://doc.rust-lang.org/stable/core/panic/trait.PanicHandler.html
///
/// # Examples
///
/// Defining an entrypoint conditional on the `bpf-entrypoint` feature. Although the `entrypoint`
/// module is written inline in this example, it is common to put it into its own file.
///
/// ```no_run
/// #[cfg(feature = "bpf-entrypoint")]
/// pub mod entrypoint {
///
///     use pinocchio::{
///         account_info::AccountInfo,
///         entrypoint,
///         msg,
///         pubkey::Pubkey,
///         ProgramResult
///     };
///
///     entrypoint!(process_instruction);
///
///     pub fn process_instruction(
///         program_id: &Pubkey,
///         accounts: &[AccountInfo],
///         instruction_data: &[u8],
///     ) -> ProgramResult {
///         msg!("Hello from my program!");
///         Ok(())
///     }
///
/// }
/// ```
///
/// # Important
///
/// The panic handler set up is different depending on whether the `std` library is available to the
/// linker or not. The `entrypoint` macro will set up a default panic "hook", that works with the
/// `#[panic_handler]` set by the `std`. Therefore, this macro should be used when the program or
/// any of its dependencies are dependent on the `std` library.
///
/// When the program and all its dependencies are `no_std`, it is necessary to set a
/// `#[panic_handler]` to handle panics. This is done by the [`crate::nostd_panic_handler`] macro.
/// In this case, it is not possible to use the `entrypoint` macro. Use the
/// [`crate::program_entrypoint!`] macro instead and set up the allocator and panic handler
/// manually.
///
/// [`crate::nostd_panic_handler`]: https://docs.rs/pinocchio/latest/pinocchio/macro.nostd_panic_handler.html
#[macro_export]
macro_rules! entrypoint {
    ( $process_instruction:expr ) => {
        $crate::entrypoint!($process_instruction, { $crate::MAX_TX_ACCOUNTS });
    };
    ( $process_instruction:expr, $maximum:expr ) => {
        $crate::program_entrypoint!($process_instruction, $maximum);
        $crate::default_allocator!();
        $crate::default_panic_handler!();
    };
}

/// Declare the program entrypoint.
///
/// This macro is similar to the [`crate::entrypoint!`] macro, but it does not set up a global
/// allocator nor a panic handler. This is useful when the program will set up its own allocator and
/// panic handler.
///
/// The first argument is the name of a function with this type signature:
///
/// ```ignore
/// fn process_instruction(
///     program_id: &Pubkey,      // Public key of the account the program was loaded into
///     accounts: &[AccountInfo], // All accounts required to process the instruction
///     instruction_data: &[u8],  // Serialized instruction-specific data
/// ) -> ProgramResult;
/// ```
/// The argument is defined as an `expr`, which allows the use of any function pointer not just
/// identifiers in the current scope.
///
/// There is a second optional argument that allows to specify the maximum number of accounts
/// expected by instructions of the program. This is useful to reduce the stack size requirement for
/// the entrypoint, as the default is set to [`MAX_TX_ACCOUNTS`]. If the program receives more
/// accounts than the specified maximum, these accounts will be ignored.
#[macro_export]
macro_rules! program_entrypoint {
    ( $process_instruction:expr ) => {
        $crate::program_entrypoint!($process_instruction, { $crate::MAX_TX_ACCOUNTS });
    };
    ( $process_instruction:expr, $maximum:expr ) => {
        /// Program entrypoint.
        #[no_mangle]
        pub unsafe extern "C" fn entrypoint(input: *mut u8) -> u64 {
            const UNINIT: core::mem::MaybeUninit<$crate::account_info::AccountInfo> =
                core::mem::MaybeUninit::<$crate::account_info::AccountInfo>::uninit();
            // Create an array of uninitialized account infos.
            let mut accounts = [UNINIT; $maximum];

            let (program_id, count, instruction_data) =
                $crate::entrypoint::deserialize::<$maximum>(input, &mut accounts);

            // Call the program's entrypoint passing `count` account infos; we know that
            // they are initialized so we cast the pointer to a slice of `[AccountInfo]`.
            match $process_instruction(
                &program_id,
                core::slice::from_raw_parts(accounts.as_ptr() as _, count),
                &instruction_data,
            ) {
                Ok(()) => $crate::SUCCESS,
                Err(error) => error.into(),
            }
        }
    };
}

/// Align a pointer to the BPF alignment of [`u128`].
macro_rules! align_pointer {
    ($ptr:ident) => {
        // integer-to-pointer cast: the resulting pointer will have the same provenance as
        // the original pointer and it follows the alignment requirement for the input.
        (($ptr as usize + (BPF_ALIGN_OF_U128 - 1)) & !(BPF_ALIGN_OF_U128 - 1)) as *mut u8
    };
}

/// A macro to repeat a pattern to process an account `n` times, where `n` is the number of `_`
/// tokens in the input.
///
/// The main advantage of this macro is to inline the code to process `n` accounts, which is useful
/// to reduce the number of jumps required.  As a result, it reduces the number of CUs required to
/// process each account.
///
/// Note that this macro emits code to update both the `input` and `accounts` pointers.
macro_rules! process_n_accounts {
    // Base case: no tokens left.
    ( () => ( $input:ident, $accounts:ident, $accounts_slice:ident ) ) => {};

    // Recursive case: one `_` token per repetition.
    ( ( _ $($rest:tt)* ) => ( $input:ident, $accounts:ident, $accounts_slice:ident ) ) => {
        process_n_accounts!(@process_account => ($input, $accounts, $accounts_slice));
        process_n_accounts!(($($rest)*) => ($input, $accounts, $accounts_slice));
    };

    // Process one account.
    ( @process_account => ( $input:ident, $accounts:ident, $accounts_slice:ident ) ) => {
        // Increment the `accounts` pointer to the next account.
        $accounts = $accounts.add(1);

        // Read the next account.
        let account: *mut Account = $input as *mut Account;
        // Adds an 8-bytes offset for:
        //   - rent epoch in case of a non-duplicated account
        //   - duplicated marker + 7 bytes of padding in case of a duplicated account
        $input = $input.add(size_of::<u64>());

        if (*account).borrow_state != NON_DUP_MARKER {
            clone_account_info($accounts, $accounts_slice, (*account).borrow_state);
        } else {
            $accounts.write(AccountInfo { raw: account });

            $input = $input.add(STATIC_ACCOUNT_DATA);
            $input = $input.add((*account).data_len as usize);
            $input = align_pointer!($input);
        }
    };
}

/// Convenience macro to transform the number of accounts to process into a pattern of `_` tokens
/// for the [`process_n_accounts`] macro.
macro_rules! process_accounts {
    ( 1 => ( $input:ident, $accounts:ident, $accounts_slice:ident ) ) => {
        process_n_accounts!( (_) => ( $input, $accounts, $accounts_slice ));
    };
    ( 2 => ( $input:ident, $accounts:ident, $accounts_slice:ident ) ) => {
        process_n_accounts!( (_ _) => ( $input, $accounts, $accounts_slice ));
    };
    ( 3 => ( $input:ident, $accounts:ident, $accounts_slice:ident ) ) => {
        process_n_accounts!( (_ _ _) => ( $input, $accounts, $accounts_slice ));
    };
    ( 4 => ( $input:ident, $accounts:ident, $accounts_slice:ident ) ) => {
        process_n_accounts!( (_ _ _ _) => ( $input, $accounts, $accounts_slice ));
    };
    ( 5 => ( $input:ident, $accounts:ident, $accounts_slice:ident ) ) => {
        process_n_accounts!( (_ _ _ _ _) => ( $input, $accounts, $accounts_slice ));
    };
}

/// Create an [`AccountInfo`] referencing the same account referenced by the [`AccountInfo`] at the
/// specified `index`.
///
/// # Safety
///
/// The caller must ensure that:
///   - `accounts` pointer must point to an array of [`AccountInfo`]s where the new [`AccountInfo`]
///     will be written.
///   - `accounts_slice` pointer must point to a slice of [`AccountInfo`]s already initialized.
///   - `index` is a valid index in the `accounts_slice`.
//
// Note: The function is marked as `cold` to stop the compiler from optimizing the parsing of
// duplicated accounts, which leads to an overall increase in CU consumption.
#[cold]
#[inline(always)]
unsafe fn clone_account_info(
    accounts: *mut AccountInfo,
    accounts_slice: *const AccountInfo,
    index: u8,
) {
    accounts.write(AccountInfo {
        raw: (*accounts_slice.add(index as usize)).raw,
    });
}

/// Parse the arguments from the runtime input buffer.
///
/// This function parses the `accounts`, `instruction_data` and `program_id` from the input buffer.
/// The `MAX_ACCOUNTS` constant defines the maximum number of accounts that can be parsed from the
/// input buffer. If the number of accounts in the input buffer exceeds `MAX_ACCOUNTS`, the excess
/// accounts will be skipped (ignored).
///
/// # Safety
///
/// The caller must ensure that the `input` buffer is valid, i.e., it represents the program input
/// parameters serialized by the SVM loader. Additionally, the `input` should last for the lifetime
/// of the program execution since the returned values reference the `input`.
#[inline(always)]
pub unsafe fn deserialize<const MAX_ACCOUNTS: usize>(
    mut input: *mut u8,
    accounts: &mut [MaybeUninit<AccountInfo>; MAX_ACCOUNTS],
) -> (&'static Pubkey, usize, &'static [u8]) {
    // Ensure that MAX_ACCOUNTS is less than or equal to the maximum number of accounts
    // (MAX_TX_ACCOUNTS) that can be processed in a transaction.
    const {
        assert!(
            MAX_ACCOUNTS <= MAX_TX_ACCOUNTS,
            "MAX_ACCOUNTS must be less than or equal to MAX_TX_ACCOUNTS"
        );
    }

    // Number of accounts to process.
    let mut processed = *(input as *const u64) as usize;
    // Skip the number of accounts (8 bytes).
    input = input.add(size_of::<u64>());

    if processed > 0 {
        let mut accounts = accounts.as_mut_ptr() as *mut AccountInfo;
        // Represents the beginning of the accounts slice.
        let accounts_slice = accounts;

        // The first account is always non-duplicated, so process
        // it directly as such.
        let account: *mut Account = input as *mut Account;
        accounts.write(AccountInfo { raw: account });

        input = input.add(STATIC_ACCOUNT_DATA + size_of::<u64>());
        input = input.add((*account).data_len as usize);
        input = align_pointer!(input);

        if processed > 1 {
            // The number of accounts to process (`to_process_plus_one`) is limited to
            // `MAX_ACCOUNTS`, which is the capacity of the accounts array. When there are more
            // accounts to process than the maximum, we still need to skip the remaining accounts
            // (`to_skip`) to move the input pointer to the instruction data. At the end, we return
            // the number of accounts processed (`processed`), which represents the accounts
            // initialized in the `accounts` slice.
            //
            // Note that `to_process_plus_one` includes the first (already processed) account to
            // avoid decrementing the value. The actual number of remaining accounts to process is
            // `to_process_plus_one - 1`.
            let mut to_process_plus_one = if MAX_ACCOUNTS < MAX_TX_ACCOUNTS {
                min(processed, MAX_ACCOUNTS)
            } else {
                processed
            };

            let mut to_skip = processed - to_process_plus_one;
            processed = to_process_plus_one;

            // This is an optimization to reduce the number of jumps required to process the
            // accounts. The macro `process_accounts` will generate inline code to process the
            // specified number of accounts.
            if to_process_plus_one == 2 {
                process_accounts!(1 => (input, accounts, accounts_slice));
            } else {
                while to_process_plus_one > 5 {
                    // Process 5 accounts at a time.
                    process_accounts!(5 => (input, accounts, accounts_slice));
                    to_process_plus_one -= 5;
                }

                // There might be remaining accounts to process.
                match to_process_plus_one {
                    5 => {
                        process_accounts!(4 => (input, accounts, accounts_slice));
                    }
                    4 => {
                        process_accounts!(3 => (input, accounts, accounts_slice));
                    }
                    3 => {
                        process_accounts!(2 => (input, accounts, accounts_slice));
                    }
                    2 => {
                        process_accounts!(1 => (input, accounts, accounts_slice));
                    }
                    1 => (),
                    _ => {
                        // SAFETY: `while` loop above makes sure that `to_process_plus_one`
                        // has 1 to 5 entries left.
                        unsafe { core::hint::unreachable_unchecked() }
                    }
                }
            }

            // Process any remaining accounts to move the offset to the instruction data (there is a
            // duplication of logic but we avoid testing whether we have space for the account or
            // not).
            //
            // There might be accounts to skip only when `MAX_ACCOUNTS < MAX_TX_ACCOUNTS` so this
            // allows the compiler to optimize the code and avoid the loop when `MAX_ACCOUNTS ==
            // MAX_TX_ACCOUNTS`.
            if MAX_ACCOUNTS < MAX_TX_ACCOUNTS {
                while to_skip > 0 {
                    // Marks the account as skipped.
                    to_skip -= 1;

                    // Read the next account.
                    let account: *mut Account = input as *mut Account;
                    // Adds an 8-bytes offset for:
                    //   - rent epoch in case of a non-duplicated account
                    //   - duplicated marker + 7 bytes of padding in case of a duplicated account
                    input = input.add(size_of::<u64>());

                    if (*account).borrow_state == NON_DUP_MARKER {
                        input = input.add(STATIC_ACCOUNT_DATA);
                        input = input.add((*account).data_len as usize);
                        input = align_pointer!(input);
                    }
                }
            }
        }
    }

    // instruction data
    let instruction_data_len = *(input as *const u64) as usize;
    input = input.add(size_of::<u64>());

    let instruction_data = { from_raw_parts(input, instruction_data_len) };
    let input = input.add(instruction_data_len);

    // program id
    let program_id: &Pubkey = &*(input as *const Pubkey);

    (program_id, processed, instruction_data)
}

/// Default panic hook.
///
/// This macro sets up a default panic hook that logs the panic message and the file where the panic
/// occurred. It acts as a hook after Rust runtime panics; syscall `abort()` will be called after it
/// returns.
///
/// Note that this requires the `"std"` feature to be enabled.
#[cfg(feature = "std")]
#[macro_export]
macro_rules! default_panic_handler {
    () => {
        /// Default panic handler.
        #[cfg(target_os = "solana")]
        #[no_mangle]
        fn custom_panic(info: &core::panic::PanicInfo<'_>) {
            // Panic reporting.
            $crate::msg!("{}", info);
        }
    };
}

/// Default panic hook.
///
/// This macro sets up a default panic hook that logs the file where the panic occurred. It acts as
/// a hook after Rust runtime panics; syscall `abort()` will be called after it returns.
///
/// This is used when the `"std"` feature is disabled, while either the program or any of its
/// dependencies are not `no_std`.
#[cfg(not(feature = "std"))]
#[macro_export]
macro_rules! default_panic_handler {
    () => {
        /// Default panic handler.
        #[cfg(target_os = "solana")]
        #[no_mangle]
        fn custom_panic(info: &core::panic::PanicInfo<'_>) {
            if let Some(location) = info.location() {
                $crate::log::sol_log(location.file());
            }
            // Panic reporting.
            $crate::log::sol_log("** PANICKED **");
        }
    };
}

/// A global `#[panic_handler]` for `no_std` programs.
///
/// This macro sets up a default panic handler that logs the location (file, line and column) where
/// the panic occurred and then calls the syscall `abort()`.
///
/// This macro can only be used when all crates are `no_std` and the `"std"` feature is disabled.
#[cfg(not(feature = "std"))]
#[macro_export]
macro_rules! nostd_panic_handler {
    () => {
        /// A panic handler for `no_std`.
        #[cfg(target_os = "solana")]
        #[no_mangle]
        #[panic_handler]
        fn handler(info: &core::panic::PanicInfo<'_>) -> ! {
            if let Some(location) = info.location() {
                unsafe {
                    $crate::syscalls::sol_panic_(
                        location.file().as_ptr(),
                        location.file().len() as u64,
                        location.line() as u64,
                        location.column() as u64,
                    )
                }
            } else {
                // Panic reporting.
                $crate::log::sol_log("** PANICKED **");
                unsafe { $crate::syscalls::abort() }
            }
        }

        /// A panic handler for when the program is compiled on a target different than
        /// `"solana"`.
        ///
        /// This links the `std` library, which will set up a default panic handler.
        #[cfg(not(target_os = "solana"))]
        mod __private_panic_handler {
            extern crate std as __std;
        }
    };
}

/// Default global allocator.
///
/// This macro sets up a default global allocator that uses a bump allocator to allocate memory.
#[macro_export]
macro_rules! default_allocator {
    () => {
        #[cfg(target_os = "solana")]
        #[global_allocator]
        static A: $crate::entrypoint::BumpAllocator = $crate::entrypoint::BumpAllocator {
            start: $crate::entrypoint::HEAP_START_ADDRESS as usize,
            len: $crate::entrypoint::HEAP_LENGTH,
        };

        /// A default allocator for when the program is compiled on a target different than
        /// `"solana"`.
        ///
        /// This links the `std` library, which will set up a default global allocator.
        #[cfg(not(target_os = "solana"))]
        mod __private_alloc {
            extern crate std as __std;
        }
    };
}

/// A global allocator that does not allocate memory.
///
/// Using this macro with the `"std"` feature enabled will result in a compile error.
#[cfg(feature = "std")]
#[macro_export]
macro_rules! no_allocator {
    () => {
        compile_error!("Feature 'std' cannot be enabled.");
    };
}

/// A global allocator that does not dynamically allocate memory.
///
/// This macro sets up a global allocator that denies all dynamic allocations, while allowing static
/// ("manual") allocations. This is useful when the program does not need to dynamically allocate
/// memory and manages their own allocations.
///
/// The program will panic if it tries to dynamically allocate memory.
///
/// This is used when the `"std"` feature is disabled.
#[cfg(not(feature = "std"))]
#[macro_export]
macro_rules! no_allocator {
    () => {
        #[cfg(target_os = "solana")]
        #[global_allocator]
        static A: $crate::entrypoint::NoAllocator = $crate::entrypoint::NoAllocator;

        /// Allocates memory for the given type `T` at the specified offset in the heap reserved
        /// address space.
        ///
        /// # Safety
        ///
        /// It is the caller's responsibility to ensure that the offset does not overlap with
        /// previous allocations and that type `T` can hold the bit-pattern `0` as a valid value.
        ///
        /// For types that cannot hold the bit-pattern `0` as a valid value, use
        /// [`core::mem::MaybeUninit<T>`] to allocate memory for the type and initialize it later.
        //
        // Make this `const` once `const_mut_refs` is stable for the platform-tools toolchain Rust
        // version.
        #[inline(always)]
        pub unsafe fn allocate_unchecked<T: Sized>(offset: usize) -> &'static mut T {
            // SAFETY: The pointer is within a valid range and aligned to `T`.
            unsafe { &mut *(calculate_offset::<T>(offset) as *mut T) }
        }

        #[inline(always)]
        const fn calculate_offset<T: Sized>(offset: usize) -> usize {
            let start = $crate::entrypoint::HEAP_START_ADDRESS as usize + offset;
            let end = start + core::mem::size_of::<T>();

            // Assert if the allocation does not exceed the heap size.
            assert!(
                end <= $crate::entrypoint::HEAP_START_ADDRESS as usize
                    + $crate::entrypoint::HEAP_LENGTH,
                "allocation exceeds heap size"
            );

            // Assert if the pointer is aligned to `T`.
            assert!(
                start % core::mem::align_of::<T>() == 0,
                "offset is not aligned"
            );

            start
        }

        /// A default allocator for when the program is compiled on a target different than
        /// `"solana"`.
        ///
        /// This links the `std` library, which will set up a default global allocator.
        #[cfg(not(target_os = "solana"))]
        mod __private_alloc {
            extern crate std as __std;
        }
    };
}

#[cfg(target_os = "solana")]
mod alloc {
    //! The bump allocator used as the default rust heap when running programs.

    extern crate alloc;

    use core::{
        alloc::{GlobalAlloc, Layout},
        mem::size_of,
        ptr::null_mut,
    };

    /// The bump allocator used as the default rust heap when running programs.
    #[derive(Clone, Copy, Debug)]
    pub struct BumpAllocator {
        pub start: usize,
        pub len: usize,
    }

    /// Integer arithmetic in this global allocator implementation is safe when operating on the
    /// prescribed [`HEAP_START_ADDRESS`] and [`HEAP_LENGTH`]. Any other use may overflow and is
    /// thus unsupported and at one's own risk.
    #[allow(clippy::arithmetic_side_effects)]
    unsafe impl GlobalAlloc for BumpAllocator {
        /// Allocates memory as a bump allocator.
        #[inline]
        unsafe fn alloc(&self, layout: Layout) -> *mut u8 {
            let pos_ptr = self.start as *mut usize;

            let mut pos = *pos_ptr;
            if pos == 0 {
                // First time, set starting position.
                pos = self.start + self.len;
            }
            pos = pos.saturating_sub(layout.size());
            pos &= !(layout.align().wrapping_sub(1));
            if pos < self.start + size_of::<*mut u8>() {
                return null_mut();
            }
            *pos_ptr = pos;
            pos as *mut u8
        }

        #[inline]
        unsafe fn dealloc(&self, _: *mut u8, _: Layout) {
            // I'm a bump allocator, I don't free.
        }
    }
}

#[cfg(not(feature = "std"))]
/// An allocator that does not allocate memory.
#[derive(Clone, Copy, Debug)]
pub struct NoAllocator;

#[cfg(not(feature = "std"))]
unsafe impl GlobalAlloc for NoAllocator {
    #[inline]
    unsafe fn alloc(&self, _: Layout) -> *mut u8 {
        panic!("** NO ALLOCATOR **");
    }

    #[inline]
    unsafe fn dealloc(&self, _: *mut u8, _: Layout) {
        // I deny all allocations, so I don't need to free.
    }
}

#[cfg(all(test, not(target_os = "solana")))]
mod tests {
    extern crate std;

    use core::{alloc::Layout, ptr::copy_nonoverlapping};
    use std::{
        alloc::{alloc, dealloc},
        vec,
    };

    use super::*;

    /// The mock program ID used for testing.
    const MOCK_PROGRAM_ID: Pubkey = [5u8; 32];

    /// An uninitialized account info.
    const UNINIT: MaybeUninit<AccountInfo> = MaybeUninit::<AccountInfo>::uninit();

    /// Struct representing a memory region with a specific alignment.
    struct AlignedMemory {
        ptr: *mut u8,
        layout: Layout,
    }

    impl AlignedMemory {
        pub fn new(len: usize) -> Self {
            let layout = Layout::from_size_align(len, BPF_ALIGN_OF_U128).unwrap();
            // SAFETY: `align` is set to `BPF_ALIGN_OF_U128`.
            unsafe {
                let ptr = alloc(layout);
                if ptr.is_null() {
                    std::alloc::handle_alloc_error(layout);
                }
                AlignedMemory { ptr, layout }
            }
        }

        /// Write data to the memory region at the specified offset.
        ///
        /// # Safety
        ///
        /// The caller must ensure that the `data` length does not exceed the remaining space in the
        /// memory region starting from the `offset`.
        pub unsafe fn write(&mut self, data: &[u8], offset: usize) {
            copy_nonoverlapping(data.as_ptr(), self.ptr.add(offset), data.len());
        }

        /// Return a mutable pointer to the memory region.
        pub fn as_mut_ptr(&mut self) -> *mut u8 {
            self.ptr
        }
    }

    impl Drop for AlignedMemory {
        fn drop(&mut self) {
            unsafe {
                dealloc(self.ptr, self.layout);
            }
        }
    }

    /// Creates an input buffer with a specified number of accounts and instruction data.
    ///
    /// This function mimics the input buffer created by the SVM loader.  Each account created has
    /// zeroed data, apart from the `data_len` field, which is set to the index of the account.
    ///
    /// # Safety
    ///
    /// The returned `AlignedMemory` should only be used within the test context.
    unsafe fn create_input(accounts: usize, instruction_data: &[u8]) -> AlignedMemory {
        let mut input = AlignedMemory::new(1_000_000_000);
        // Number of accounts.
        input.write(&(accounts as u64).to_le_bytes(), 0);
        let mut offset = size_of::<u64>();

        for i in 0..accounts {
            // Account data.
            let mut account = [0u8; STATIC_ACCOUNT_DATA + size_of::<u64>()];
            account[0] = NON_DUP_MARKER;
            // Set the accounts data length. The actual account data is zeroed.
            account[80..88].copy_from_slice(&i.to_le_bytes());
            input.write(&account, offset);
            offset += account.len();
            // Padding for the account data to align to `BPF_ALIGN_OF_U128`.
            let padding_for_data = (i + (BPF_ALIGN_OF_U128 - 1)) & !(BPF_ALIGN_OF_U128 - 1);
            input.write(&vec![0u8; padding_for_data], offset);
            offset += padding_for_data;
        }

        // Instruction data length.
        input.write(&instruction_data.len().to_le_bytes(), offset);
        offset += size_of::<u64>();
        // Instruction data.
        input.write(instruction_data, offset);
        offset += instruction_data.len();
        // Program ID (mock).
        input.write(&MOCK_PROGRAM_ID, offset);

        input
    }

    /// Creates an input buffer with a specified number of accounts, including duplicated accounts,
    /// and instruction data.
    ///
    /// This function differs from `create_input` in that it creates accounts with a marker
    /// indicating that they are duplicated. There will be `accounts - duplicated` unique accounts,
    /// and the remaining `duplicated` accounts will be duplicates of the last unique account.
    ///
    /// This function mimics the input buffer created by the SVM loader.  Each account created has
    /// zeroed data, apart from the `data_len` field, which is set to the index of the account.
    ///
    /// # Safety
    ///
    /// The returned `AlignedMemory` should only be used within the test context.
    unsafe fn create_input_with_duplicates(
        accounts: usize,
        instruction_data: &[u8],
        duplicated: usize,
    ) -> AlignedMemory {
        let mut input = AlignedMemory::new(1_000_000_000);
        // Number of accounts.
        input.write(&(accounts as u64).to_le_bytes(), 0);
        let mut offset = size_of::<u64>();

        if accounts > 0 {
            assert!(
                duplicated < accounts,
                "Duplicated accounts must be less than total accounts"
            );
            let unique = accounts - duplicated;

            for i in 0..unique {
                // Account data.
                let mut account = [0u8; STATIC_ACCOUNT_DATA + size_of::<u64>()];
                account[0] = NON_DUP_MARKER;
                // Set the accounts data length. The actual account data is zeroed.
                account[80..88].copy_from_slice(&i.to_le_bytes());
                input.write(&account, offset);
                offset += account.len();
                // Padding for the account data to align to `BPF_ALIGN_OF_U128`.
                let padding_for_data = (i + (BPF_ALIGN_OF_U128 - 1)) & !(BPF_ALIGN_OF_U128 - 1);
                input.write(&vec![0u8; padding_for_data], offset);
                offset += padding_for_data;
            }

            // Remaining accounts are duplicated of the last unique account.
            for _ in unique..accounts {
                input.write(&[(unique - 1) as u8, 0, 0, 0, 0, 0, 0, 0], offset);
                offset += size_of::<u64>();
            }
        }

        // Instruction data length.
        input.write(&instruction_data.len().to_le_bytes(), offset);
        offset += size_of::<u64>();
        // Instruction data.
        input.write(instruction_data, offset);
        offset += instruction_data.len();
        // Program ID (mock).
        input.write(&MOCK_PROGRAM_ID, offset);

        input
    }

    /// Asserts that the accounts slice contains the expected number of accounts and that each
    /// account's data length matches its index.
    fn assert_accounts(accounts: &[MaybeUninit<AccountInfo>]) {
        for (i, account) in accounts.iter().enumerate() {
            let account_info = unsafe { account.assume_init_ref() };
            assert_eq!(account_info.data_len(), i);
        }
    }

    /// Asserts that the accounts slice contains the expected number of accounts and all accounts
    /// are duplicated, apart from the first one.
    fn assert_duplicated_accounts(accounts: &[MaybeUninit<AccountInfo>], duplicated: usize) {
        assert!(accounts.len() > duplicated);

        let unique = accounts.len() - duplicated;

        // Unique accounts should have `data_len` equal to their index.
        for (i, account) in accounts[..unique].iter().enumerate() {
            let account_info = unsafe { account.assume_init_ref() };
            assert_eq!(account_info.data_len(), i);
        }

        // Last unique account.
        let duplicated = unsafe { accounts[unique - 1].assume_init_ref() };
        // No mutable borrow active at this point.
        assert!(duplicated.try_borrow_mut_data().is_ok());

        // Duplicated accounts should reference (share) the account pointer
        // to the last unique account.
        for account in accounts[unique..].iter() {
            let account_info = unsafe { account.assume_init_ref() };

            assert_eq!(account_info.raw, duplicated.raw);
            assert_eq!(account_info.data_len(), duplicated.data_len());

            let borrowed = account_info.try_borrow_mut_data().unwrap();
            // Only one mutable borrow at the same time should be allowed
            // on the duplicated account.
            assert!(duplicated.try_borrow_mut_data().is_err());
            drop(borrowed);
        }

        // There should not be any mutable borrow on the duplicated account
        // at this point.
        assert!(duplicated.try_borrow_mut_data().is_ok());
    }

    #[test]
    fn test_deserialize() {
        let ix_data = [3u8; 100];

        // Input with 0 accounts.

        let mut input = unsafe { create_input(0, &ix_data) };
        let mut accounts = [UNINIT; 1];

        let (program_id, count, parsed_ix_data) =
            unsafe { deserialize(input.as_mut_ptr(), &mut accounts) };

        assert_eq!(count, 0);
        assert_eq!(program_id, &MOCK_PROGRAM_ID);
        assert_eq!(&ix_data, parsed_ix_data);

        // Input with 3 accounts but the accounts array has only space
        // for 1.

        let mut input = unsafe { create_input(3, &ix_data) };
        let mut accounts = [UNINIT; 1];

        let (program_id, count, parsed_ix_data) =
            unsafe { deserialize(input.as_mut_ptr(), &mut accounts) };

        assert_eq!(count, 1);
        assert_eq!(program_id, &MOCK_PROGRAM_ID);
        assert_eq!(&ix_data, parsed_ix_data);
        assert_accounts(&accounts[..count]);

        // Input with `MAX_TX_ACCOUNTS` accounts but accounts array has
        // only space for 64.

        let mut input = unsafe { create_input(MAX_TX_ACCOUNTS, &ix_data) };
        let mut accounts = [UNINIT; 64];

        let (program_id, count, parsed_ix_data) =
            unsafe { deserialize(input.as_mut_ptr(), &mut accounts) };

        assert_eq!(count, 64);
        assert_eq!(program_id, &MOCK_PROGRAM_ID);
        assert_eq!(&ix_data, parsed_ix_data);
        assert_accounts(&accounts);
    }

    #[test]
    fn test_deserialize_duplicated() {
        let ix_data = [3u8; 100];

        // Input with 0 accounts.

        let mut input = unsafe { create_input_with_duplicates(0, &ix_data, 0) };
        let mut accounts = [UNINIT; 1];

        let (program_id, count, parsed_ix_data) =
            unsafe { deserialize(input.as_mut_ptr(), &mut accounts) };

        assert_eq!(count, 0);
        assert_eq!(program_id, &MOCK_PROGRAM_ID);
        assert_eq!(&ix_data, parsed_ix_data);

        // Input with 3 (1 + 2 duplicated) accounts but the accounts array has only space for 2. The
        // assert checks that the second account is a duplicate of the first one and the first one
        // is unique.

        let mut input = unsafe { create_input_with_duplicates(3, &ix_data, 2) };
        let mut accounts = [UNINIT; 2];

        let (program_id, count, parsed_ix_data) =
            unsafe { deserialize(input.as_mut_ptr(), &mut accounts) };

        assert_eq!(count, 2);
        assert_eq!(program_id, &MOCK_PROGRAM_ID);
        assert_eq!(&ix_data, parsed_ix_data);
        assert_duplicated_accounts(&accounts[..count], 1);

        // Input with `MAX_TX_ACCOUNTS` accounts (only 32 unique ones) but accounts array has only
        // space for 64. The assert checks that the first 32 accounts are unique and the rest are
        // duplicates of the account at index 31.

        let mut input = unsafe {
            create_input_with_duplicates(MAX_TX_ACCOUNTS, &ix_data, MAX_TX_ACCOUNTS - 32)
        };
        let mut accounts = [UNINIT; 64];

        let (program_id, count, parsed_ix_data) =
            unsafe { deserialize(input.as_mut_ptr(), &mut accounts) };

        assert_eq!(count, 64);
        assert_eq!(program_id, &MOCK_PROGRAM_ID);
        assert_eq!(&ix_data, parsed_ix_data);
        assert_duplicated_accounts(&accounts, 32);
    }
}
