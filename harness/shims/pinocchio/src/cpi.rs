//! Cross-program invocation helpers.

use core::{mem::MaybeUninit, ops::Deref, slice::from_raw_parts};

use crate::{
    account_info::{AccountInfo, BorrowState},
    hint::unlikely,
    instruction::{Account, Instruction, Signer},
    program_error::ProgramError,
    pubkey::{pubkey_eq, Pubkey},
    ProgramResult,
};

/// Maximum number of accounts that can be passed to a cross-program invocation.
pub const MAX_CPI_ACCOUNTS: usize = 64;

/// Invoke a cross-program instruction from an array of `AccountInfo`s.
///
/// This function is a convenience wrapper around the [`invoke_signed`] function
/// with the signers' seeds set to an empty slice.
///
/// Note that this function is inlined to avoid the overhead of a function call,
/// but uses stack memory allocation. When a large number of accounts is needed,
/// it is recommended to use the [`slice_invoke`] function instead to reduce
/// stack memory utilization.
///
/// # Important
///
/// The accounts on the `account_infos` slice must be in the same order as the
/// `accounts` field of the `instruction`. When the instruction has duplicated
/// accounts, it is necessary to pass a duplicated reference to the same account
/// to maintain the 1:1 relationship between `account_infos` and `accounts`.
#[inline(always)]
pub fn invoke<const ACCOUNTS: usize>(
    instruction: &Instruction,
    account_infos: &[&AccountInfo; ACCOUNTS],
) -> ProgramResult {
    invoke_signed::<ACCOUNTS>(instruction, account_infos, &[])
}

/// Invoke a cross-program instruction from a slice of `AccountInfo`s.
///
/// This function is a convenience wrapper around the [`invoke_signed_with_bounds`]
/// function with the signers' seeds set to an empty slice.
///
/// The `MAX_ACCOUNTS` constant defines the maximum number of accounts expected
/// to be passed to the cross-program invocation. This provides an upper bound to
/// the number of accounts that need to be statically allocated for cases where the
/// number of instruction accounts is not known at compile time. The final number of
/// accounts passed to the cross-program invocation will be the number of accounts
/// required by the `instruction`, even if `MAX_ACCOUNTS` is greater than that. When
/// `MAX_ACCOUNTS` is lower than the number of accounts expected by the instruction,
/// this function will return a [`ProgramError::InvalidArgument`] error.
///
/// Note that this function is inlined to avoid the overhead of a function call,
/// but uses stack memory allocation. When a large number of accounts is needed,
/// it is recommended to use the [`slice_invoke`] function instead to reduce
/// stack memory utilization.
///
/// # Important
///
/// The accounts on the `account_infos` slice must be in the same order as the
/// `accounts` field of the `instruction`. When the instruction has duplicated
/// accounts, it is necessary to pass a duplicated reference to the same account
/// to maintain the 1:1 relationship between `account_infos` and `accounts`.
#[inline(always)]
pub fn invoke_with_bounds<const MAX_ACCOUNTS: usize>(
    instruction: &Instruction,
    account_infos: &[&AccountInfo],
) -> ProgramResult {
    invoke_signed_with_bounds::<MAX_ACCOUNTS>(instruction, account_infos, &[])
}

/// Invoke a cross-program instruction from a slice of `AccountInfo`s.
///
/// This function is a convenience wrapper around the [`slice_invoke_signed`]
/// function with the signers' seeds set to an empty slice.
///
/// Note that the maximum number of accounts that can be passed to a cross-program
/// invocation is defined by the [`MAX_CPI_ACCOUNTS`] constant. Even if the slice
/// of `AccountInfo`s has more accounts, only the number of accounts required by
/// the `instruction` will be used. If the number of accounts required by the
/// instruction is greater than [`MAX_CPI_ACCOUNTS`], this function will return a
/// [`ProgramError::InvalidArgument`] error.
///
/// # Important
///
/// The accounts on the `account_infos` slice must be in the same order as the
/// `accounts` field of the `instruction`. When the instruction has duplicated
/// accounts, it is necessary to pass a duplicated reference to the same account
/// to maintain the 1:1 relationship between `account_infos` and `accounts`.
#[inline(always)]
pub fn slice_invoke(instruction: &Instruction, account_infos: &[&AccountInfo]) -> ProgramResult {
    slice_invoke_signed(instruction, account_infos, &[])
}

/// Invoke a cross-program instruction with signatures from an array of
/// `AccountInfo`s.
///
/// This function performs validation of the `account_infos` slice to ensure that:
///   1. It has at least as many accounts as the number of accounts expected by
///      the instruction.
///   2. The accounts match the expected accounts in the instruction, i.e., their
///      `Pubkey` matches the `pubkey` in the `AccountMeta`.
///   3. The borrow state of the accounts is compatible with the mutability of the
///      accounts in the instruction.
///
/// This validation is done to ensure that the borrow checker rules are followed,
/// consuming CUs in the process. The `invoke_signed_unchecked` is an alternative
/// to this function that have lower CU consumption since it does not perform
/// any validation. This should only be used when the caller is sure that the borrow
/// checker rules are followed.
///
/// Note that this function is inlined to avoid the overhead of a function call,
/// but uses stack memory allocation. When a large number of accounts is needed,
/// it is recommended to use the [`slice_invoke_signed`] function instead to reduce
/// stack memory utilization.
///
/// # Important
///
/// The accounts on the `account_infos` slice must be in the same order as the
/// `accounts` field of the `instruction`. When the instruction has duplicated
/// accounts, it is necessary to pass a duplicated reference to the same account
/// to maintain the 1:1 relationship between `account_infos` and `accounts`.
#[inline(always)]
pub fn invoke_signed<const ACCOUNTS: usize>(
    instruction: &Instruction,
    account_infos: &[&AccountInfo; ACCOUNTS],
    signers_seeds: &[Signer],
) -> ProgramResult {
    // SAFETY: The array of `AccountInfo`s will be checked to ensure that it has
    // the same number of accounts as the instruction – this indirectly validates
    // that the stack allocated account storage `ACCOUNTS` is sufficient for the
    // number of accounts expected by the instruction.
    unsafe {
        inner_invoke_signed_with_bounds::<ACCOUNTS>(instruction, account_infos, signers_seeds)
    }
}

/// Invoke a cross-program instruction with signatures from a slice of
/// `AccountInfo`s.
///
/// This function performs validation of the `account_infos` slice to ensure that:
///   1. It has at least as many accounts as the number of accounts expected by
///      the instruction.
///   2. The accounts match the expected accounts in the instruction, i.e., their
///      `Pubkey` matches the `pubkey` in the `AccountMeta`.
///   3. The borrow state of the accounts is compatible with the mutability of the
///      accounts in the instruction.
///
/// This validation is done to ensure that the borrow checker rules are followed,
/// consuming CUs in the process. The [`invoke_signed_unchecked`] is an alternative
/// to this function that has lower CU consumption since it does not perform
/// any validation. This should only be used when the caller is sure that the borrow
/// checker rules are followed.
///
/// The `MAX_ACCOUNTS` constant defines the maximum number of accounts expected
/// to be passed to the cross-program invocation. This provides an upper bound to
/// the number of accounts that need to be statically allocated for cases where the
/// number of instruction accounts is not known at compile time. The final number of
/// accounts passed to the cross-program invocation will be the number of accounts
/// required by the `instruction`, even if `MAX_ACCOUNTS` is greater than that. When
/// `MAX_ACCOUNTS` is lower than the number of accounts expected by the instruction,
/// this function will return a [`ProgramError::InvalidArgument`] error.
///
/// Note that this function is inlined to avoid the overhead of a function call,
/// but uses stack memory allocation. When a large number of accounts is needed,
/// it is recommended to use the [`slice_invoke_signed`] function instead to reduce
/// stack memory utilization.
///
/// # Important
///
/// The accounts on the `account_infos` slice must be in the same order as the
/// `accounts` field of the `instruction`. When the instruction has duplicated
/// accounts, it is necessary to pass a duplicated reference to the same account
/// to maintain the 1:1 relationship between `account_infos` and `accounts`.
#[inline(always)]
pub fn invoke_signed_with_bounds<const MAX_ACCOUNTS: usize>(
    instruction: &Instruction,
    account_infos: &[&AccountInfo],
    signers_seeds: &[Signer],
) -> ProgramResult {
    // Check that the stack allocated account storage `MAX_ACCOUNTS` is sufficient
    // for the number of accounts expected by the instruction.
    //
    // The check for the slice of `AccountInfo`s not being less than the
    // number of accounts expected by the instruction is done in
    // `invoke_signed_with_bounds`.
    if MAX_ACCOUNTS < instruction.accounts.len() {
        return Err(ProgramError::InvalidArgument);
    }

    // SAFETY: The stack allocated account storage `MAX_ACCOUNTS` was validated.
    unsafe {
        inner_invoke_signed_with_bounds::<MAX_ACCOUNTS>(instruction, account_infos, signers_seeds)
    }
}

/// Invoke a cross-program instruction with signatures from a slice of
/// `AccountInfo`s.
///
/// This function performs validation of the `account_infos` slice to ensure that:
///   1. It has at least as many accounts as the number of accounts expected by
///      the instruction.
///   2. The accounts match the expected accounts in the instruction, i.e., their
///      `Pubkey` matches the `pubkey` in the `AccountMeta`.
///   3. The borrow state of the accounts is compatible with the mutability of the
///      accounts in the instruction.
///
/// This validation is done to ensure that the borrow checker rules are followed,
/// consuming CUs in the process. The [`invoke_signed_unchecked`] is an alternative
/// to this function that have lower CU consumption since it does not perform
/// any validation. This should only be used when the caller is sure that the borrow
/// checker rules are followed.
///
/// Note that the maximum number of accounts that can be passed to a cross-program
/// invocation is defined by the `MAX_CPI_ACCOUNTS` constant. Even if the slice
/// of `AccountInfo`s has more accounts, only the number of accounts required by
/// the `instruction` will be used. If the number of accounts required by the
/// instruction is greater than [`MAX_CPI_ACCOUNTS`], this function will return a
/// [`ProgramError::InvalidArgument`] error.
///
/// # Important
///
/// The accounts on the `account_infos` slice must be in the same order as the
/// `accounts` field of the `instruction`. When the instruction has duplicated
/// accounts, it is necessary to pass a duplicated reference to the same account
/// to maintain the 1:1 relationship between `account_infos` and `accounts`.
pub fn slice_invoke_signed(
    instruction: &Instruction,
    account_infos: &[&AccountInfo],
    signers_seeds: &[Signer],
) -> ProgramResult {
    // Check that the stack allocated account storage `MAX_CPI_ACCOUNTS` is
    // sufficient for the number of accounts expected by the instruction.
    //
    // The check for the slice of `AccountInfo`s not being less than the
    // number of accounts expected by the instruction is done in
    // `invoke_signed_with_bounds`.
    if MAX_CPI_ACCOUNTS < instruction.accounts.len() {
        return Err(ProgramError::InvalidArgument);
    }

    // SAFETY: The stack allocated account storage `MAX_CPI_ACCOUNTS` was validated.
    unsafe {
        inner_invoke_signed_with_bounds::<MAX_CPI_ACCOUNTS>(
            instruction,
            account_infos,
            signers_seeds,
        )
    }
}

/// Internal function to invoke a cross-program instruction with signatures
/// from a slice of `AccountInfo`s performing borrow checking.
///
/// This function performs validation of the `account_infos` slice to ensure that:
///   1. It has at least as many accounts as the number of accounts expected by
///      the instruction.
///   2. The accounts match the expected accounts in the instruction, i.e., their
///      `Pubkey` matches the `pubkey` in the `AccountMeta`.
///   3. The borrow state of the accounts is compatible with the mutability of the
///      accounts in the instruction.
///
/// # Safety
///
/// This function is unsafe because it does not check that the stack allocated account
/// storage `MAX_ACCOUNTS` is sufficient for the number of accounts expected by the
/// instruction. Using a value of `MAX_ACCOUNTS` that is less than the number of accounts
/// expected by the instruction will result in undefined behavior.
#[inline(always)]
unsafe fn inner_invoke_signed_with_bounds<const MAX_ACCOUNTS: usize>(
    instruction: &Instruction,
    account_infos: &[&AccountInfo],
    signers_seeds: &[Signer],
) -> ProgramResult {
    // Check that the number of `MAX_ACCOUNTS` provided is not greater than
    // the maximum number of accounts allowed.
    const {
        assert!(
            MAX_ACCOUNTS <= MAX_CPI_ACCOUNTS,
            "MAX_ACCOUNTS is greater than allowed MAX_CPI_ACCOUNTS"
        );
    }

    // Check that the number of accounts provided is not less than
    // the number of accounts expected by the instruction.
    if account_infos.len() < instruction.accounts.len() {
        return Err(ProgramError::NotEnoughAccountKeys);
    }

    const UNINIT: MaybeUninit<Account> = MaybeUninit::<Account>::uninit();
    let mut accounts = [UNINIT; MAX_ACCOUNTS];

    account_infos
        .iter()
        .zip(instruction.accounts.iter())
        .zip(accounts.iter_mut())
        .try_for_each(|((account_info, account_meta), account)| {
            // In order to check whether the borrow state is compatible
            // with the invocation, we need to check that we have the
            // correct account info and meta pair.
            if unlikely(!pubkey_eq(account_info.key(), account_meta.pubkey)) {
                return Err(ProgramError::InvalidArgument);
            }

            // Determines the borrow state that would be invalid according
            // to their mutability on the instruction.
            let invalid_state = if account_meta.is_writable {
                // If the account is required to be writable, it cannot
                //  be currently borrowed.
                BorrowState::Borrowed
            } else {
                // If the account is required to be read-only, it cannot
                // be currently mutably borrowed.
                BorrowState::MutablyBorrowed
            };

            if account_info.is_borrowed(invalid_state) {
                return Err(ProgramError::AccountBorrowFailed);
            }

            account.write(Account::from(*account_info));

            Ok(())
        })?;

    // SAFETY: At this point it is guaranteed that account infos are borrowable
    // according to their mutability on the instruction.
    unsafe {
        invoke_signed_unchecked(
            instruction,
            from_raw_parts(accounts.as_ptr() as _, instruction.accounts.len()),
            signers_seeds,
        );
    }

    Ok(())
}

/// Invoke a cross-program instruction but don't enforce Rust's aliasing rules.
///
/// This function does not check that [`Account`]s are properly borrowable.
/// Those checks consume CUs that this function avoids.
///
/// Note that the maximum number of accounts that can be passed to a cross-program
/// invocation is defined by the `MAX_CPI_ACCOUNTS` constant. Even if the slice
/// of `AccountInfo`s has more accounts, only the number of accounts required by
/// the `instruction` will be used.
///
/// # Safety
///
/// If any of the writable accounts passed to the callee contain data that is
/// borrowed within the calling program, and that data is written to by the
/// callee, then Rust's aliasing rules will be violated and cause undefined
/// behavior.
#[inline(always)]
pub unsafe fn invoke_unchecked(instruction: &Instruction, accounts: &[Account]) {
    invoke_signed_unchecked(instruction, accounts, &[])
}

/// Invoke a cross-program instruction with signatures but don't enforce Rust's
/// aliasing rules.
///
/// This function does not check that [`Account`]s are properly borrowable.
/// Those checks consume CUs that this function avoids.
///
/// Note that the maximum number of accounts that can be passed to a cross-program
/// invocation is defined by the `MAX_CPI_ACCOUNTS` constant. Even if the slice
/// of `AccountInfo`s has more accounts, only the number of accounts required by
/// the `instruction` will be used.
///
/// # Safety
///
/// If any of the writable accounts passed to the callee contain data that is
/// borrowed within the calling program, and that data is written to by the
/// callee, then Rust's aliasing rules will be violated and cause undefined
/// behavior.
#[inline(always)]
pub unsafe fn invoke_signed_unchecked(
    instruction: &Instruction,
    accounts: &[Account],
    signers_seeds: &[Signer],
) {
    #[cfg(target_os = "solana")]
    {
        use crate::instruction::AccountMeta;

        /// An `Instruction` as expected by `sol_invoke_signed_c`.
        ///
        /// DO NOT EXPOSE THIS STRUCT:
        ///
        /// To ensure pointers are valid upon use, the scope of this struct should
        /// only be limited to the stack where `sol_invoke_signed_c` happens and then
        /// discarded immediately after.
        #[repr(C)]
        struct CInstruction<'a> {
            /// Public key of the program.
            program_id: *const Pubkey,

            /// Accounts expected by the program instruction.
            accounts: *const AccountMeta<'a>,

            /// Number of accounts expected by the program instruction.
            accounts_len: u64,

            /// Data expected by the program instruction.
            data: *const u8,

            /// Length of the data expected by the program instruction.
            data_len: u64,
        }

        let cpi_instruction = CInstruction {
            program_id: instruction.program_id,
            accounts: instruction.accounts.as_ptr(),
            accounts_len: instruction.accounts.len() as u64,
            data: instruction.data.as_ptr(),
            data_len: instruction.data.len() as u64,
        };

        unsafe {
            crate::syscalls::sol_invoke_signed_c(
                &cpi_instruction as *const _ as *const u8,
                accounts as *const _ as *const u8,
                accounts.len() as u64,
                signers_seeds as *const _ as *const u8,
                signers_seeds.len() as u64,
            )
        };
    }

    #[cfg(not(target_os = "solana"))]
    {
        // VERIF SHIM: off-chain there is no syscall; hand the CPI to the native runtime.
        // On-chain a failed CPI aborts the transaction, so the stub never returns on error.
        extern "Rust" {
            fn verif_pino_invoke_signed(
                instruction: &Instruction,
                accounts: &[Account],
                signers_seeds: &[Signer],
            );
        }
        verif_pino_invoke_signed(instruction, accounts, signers_seeds);
    }
}

/// Maximum size that can be set using [`set_return_data`].
pub const MAX_RETURN_DATA: usize = 1024;

/// Set the running program's return data.
///
/// Return data is a dedicated per-transaction buffer for data passed
/// from cross-program invoked programs back to their caller.
///
/// The maximum size of return data is [`MAX_RETURN_DATA`]. Return data is
/// retrieved by the caller with [`get_return_data`].
#[inline(always)]
pub fn set_return_data(data: &[u8]) {
    #[cfg(target_os = "solana")]
    unsafe {
        crate::syscalls::sol_set_return_data(data.as_ptr(), data.len() as u64)
    };

    #[cfg(not(target_os = "solana"))]
    core::hint::black_box(data);
}

/// Get the return data from an invoked program.
///
/// For every transaction there is a single buffer with maximum length
/// [`MAX_RETURN_DATA`], paired with a [`Pubkey`] representing the program ID of
/// the program that most recently set the return data. Thus the return data is
/// a global resource and care must be taken to ensure that it represents what
/// is expected: called programs are free to set or not set the return data; and
/// the return data may represent values set by programs multiple calls down the
/// call stack, depending on the circumstances of transaction execution.
///
/// Return data is set by the callee with [`set_return_data`].
///
/// Return data is cleared before every CPI invocation - a program that
/// has invoked no other programs can expect the return data to be `None`; if no
/// return data was set by the previous CPI invocation, then this function
/// returns `None`.
///
/// Return data is not cleared after returning from CPI invocations. A
/// program that has called another program may retrieve return data that was
/// not set by the called program, but instead set by a program further down the
/// call stack; or, if a program calls itself recursively, it is possible that
/// the return data was not set by the immediate call to that program, but by a
/// subsequent recursive call to that program. Likewise, an external RPC caller
/// may see return data that was not set by the program it is directly calling,
/// but by a program that program called.
///
/// For more about return data see the [documentation for the return data proposal][rdp].
///
/// [rdp]: https://docs.solanalabs.com/proposals/return-data
#[inline]
pub fn get_return_data() -> Option<ReturnData> {
    #[cfg(target_os = "solana")]
    {
        const UNINIT_BYTE: core::mem::MaybeUninit<u8> = core::mem::MaybeUninit::<u8>::uninit();
        let mut data = [UNINIT_BYTE; MAX_RETURN_DATA];
        let mut program_id = MaybeUninit::<Pubkey>::uninit();

        let size = unsafe {
            crate::syscalls::sol_get_return_data(
                data.as_mut_ptr() as *mut u8,
                data.len() as u64,
                program_id.as_mut_ptr() as *mut Pubkey,
            )
        };

        if size == 0 {
            None
        } else {
            Some(ReturnData {
                program_id: unsafe { program_id.assume_init() },
                data,
                size: core::cmp::min(size as usize, MAX_RETURN_DATA),
            })
        }
    }

    #[cfg(not(target_os = "solana"))]
    core::hint::black_box(None)
}

/// Struct to hold the return data from an invoked program.
#[derive(Debug)]
pub struct ReturnData {
    /// Program that most recently set the return data.
    program_id: Pubkey,

    /// Return data set by the program.
    data: [MaybeUninit<u8>; MAX_RETURN_DATA],

    /// Length of the return data.
    size: usize,
}

impl ReturnData {
    /// Returns the program that most recently set the return data.
    pub fn program_id(&self) -> &Pubkey {
        &self.program_id
    }

    /// Return the data set by the program.
    pub fn as_slice(&self) -> &[u8] {
        unsafe { from_raw_parts(self.data.as_ptr() as _, self.size) }
    }
}

impl Deref for ReturnData {
    type Target = [u8];

    fn deref(&self) -> &Self::Target {
        self.as_slice()
    }
}
