//! Data structures to represent account information.

use core::{
    marker::PhantomData,
    mem::ManuallyDrop,
    ptr::{write, NonNull},
    slice::{from_raw_parts, from_raw_parts_mut},
};

#[cfg(target_os = "solana")]
use crate::syscalls::sol_memset_;

use crate::{
    program_error::ProgramError,
    pubkey::{pubkey_eq, Pubkey},
    ProgramResult,
};

/// Maximum number of bytes a program may add to an account during a
/// single top-level instruction.
pub const MAX_PERMITTED_DATA_INCREASE: usize = 1_024 * 10;

/// Represents masks for borrow state of an account.
#[repr(u8)]
#[derive(Clone, Copy, Debug)]
pub enum BorrowState {
    /// Mask to check whether an account is already borrowed.
    ///
    /// This will test both data and lamports borrow state. Any position
    /// in the borrow byte that is not set means that the account
    /// is borrowed in that state.
    Borrowed = 0b_1111_1111,

    /// Mask to check whether an account is already mutably borrowed.
    ///
    /// This will test both data and lamports mutable borrow state. If
    /// one of the mutably borrowed bits is not set, then the account
    /// is mutably borrowed in that state.
    MutablyBorrowed = 0b_1000_1000,
}

/// Raw account data.
///
/// This data is wrapped in an `AccountInfo` struct, which provides safe access
/// to the data.
#[repr(C)]
#[derive(Clone, Copy, Default)]
pub(crate) struct Account {
    /// Borrow state for lamports and account data.
    ///
    /// This reuses the memory reserved for the duplicate flag in the
    /// account to track lamports and data borrows. It represents the
    /// numbers of borrows available.
    ///
    /// Bits in the borrow byte are used as follows:
    ///
    ///   * lamport mutable borrow flag
    ///     - `7 6 5 4 3 2 1 0`
    ///     - `x . . . . . . .`: `1` - the lamport field can be mutably borrowed;
    ///       `0` - there is an outstanding mutable borrow for the lamports.
    ///
    ///   * lamport immutable borrow count
    ///     - `7 6 5 4 3 2 1 0`
    ///     - `. x x x . . . .`: number of immutable borrows that can still be
    ///       allocated, for the lamports field. Ranges from 7 (`111`) to
    ///        0 (`000`).
    ///
    ///   * data mutable borrow flag
    ///     - `7 6 5 4 3 2 1 0`
    ///     - `. . . . x . . .`:  `1` - the account data can be mutably borrowed;
    ///       `0` - there is an outstanding mutable borrow for the account data.
    ///
    ///   * data immutable borrow count
    ///     - `7 6 5 4 3 2 1 0`
    ///     - `. . . . . x x x`: Number of immutable borrows that can still be
    ///       allocated, for the account data. Ranges from 7 (`111`) to 0 (`000`).
    ///
    /// Note that this values are shared across `AccountInfo`s over the
    /// same account, e.g., in case of duplicated accounts, they share
    /// the same borrow state.
    pub(crate) borrow_state: u8,

    /// Indicates whether the transaction was signed by this account.
    is_signer: u8,

    /// Indicates whether the account is writable.
    is_writable: u8,

    /// Indicates whether this account represents a program.
    executable: u8,

    /// Difference between the original data length and the current
    /// data length.
    ///
    /// This is used to track the original data length of the account
    /// when the account is resized. The runtime guarantees that this
    /// value is zero at the start of the instruction.
    resize_delta: i32,

    /// Public key of the account.
    key: Pubkey,

    /// Program that owns this account. Modifiable by programs.
    owner: Pubkey,

    /// The lamports in the account. Modifiable by programs.
    lamports: u64,

    /// Length of the data. Modifiable by programs.
    pub(crate) data_len: u64,
}

/// Wrapper struct for an `Account`.
///
/// This struct provides safe access to the data in an `Account`. It is also
/// used to track borrows of the account data and lamports, given that an
/// account can be "shared" across multiple `AccountInfo` instances.
#[repr(C)]
#[derive(Clone, Copy, PartialEq, Eq, Debug)]
pub struct AccountInfo {
    /// Raw (pointer to) account data.
    ///
    /// Note that this is a pointer can be shared across multiple `AccountInfo`.
    pub(crate) raw: *mut Account,
}

impl AccountInfo {
    /// Public key of the account.
    #[inline(always)]
    pub fn key(&self) -> &Pubkey {
        unsafe { &(*self.raw).key }
    }

    /// Program that owns this account.
    #[inline(always)]
    pub fn owner(&self) -> &Pubkey {
        unsafe { &(*self.raw).owner }
    }

    /// Indicates whether the transaction was signed by this account.
    #[inline(always)]
    pub fn is_signer(&self) -> bool {
        unsafe { (*self.raw).is_signer != 0 }
    }

    /// Indicates whether the account is writable.
    #[inline(always)]
    pub fn is_writable(&self) -> bool {
        unsafe { (*self.raw).is_writable != 0 }
    }

    /// Indicates whether this account represents a program.
    ///
    /// Program accounts are always read-only.
    #[inline(always)]
    pub fn executable(&self) -> bool {
        unsafe { (*self.raw).executable != 0 }
    }

    /// Returns the size of the data in the account.
    #[inline(always)]
    pub fn data_len(&self) -> usize {
        unsafe { (*self.raw).data_len as usize }
    }

    /// Returns the delta between the original data length and the current
    /// data length.
    ///
    /// This value will be different than zero if the account has been resized
    /// during the current instruction.
    #[inline(always)]
    pub fn resize_delta(&self) -> i32 {
        unsafe { (*self.raw).resize_delta }
    }

    /// Returns the lamports in the account.
    #[inline(always)]
    pub fn lamports(&self) -> u64 {
        unsafe { (*self.raw).lamports }
    }

    /// Indicates whether the account data is empty.
    ///
    /// An account is considered empty if the data length is zero.
    #[inline(always)]
    pub fn data_is_empty(&self) -> bool {
        self.data_len() == 0
    }

    /// Checks if the account is owned by the given program.
    #[inline(always)]
    pub fn is_owned_by(&self, program: &Pubkey) -> bool {
        pubkey_eq(self.owner(), program)
    }

    /// Changes the owner of the account.
    ///
    /// # Safety
    ///
    /// It is undefined behavior to use this method while there is an active reference
    /// to the `owner` returned by [`Self::owner`].
    #[inline(always)]
    pub unsafe fn assign(&self, new_owner: &Pubkey) {
        write(&mut (*self.raw).owner, *new_owner);
    }

    /// Return true if the account borrow state is set to the given state.
    ///
    /// This will test both data and lamports borrow state.
    #[inline(always)]
    pub fn is_borrowed(&self, state: BorrowState) -> bool {
        let borrow_state = unsafe { (*self.raw).borrow_state };
        let mask = state as u8;
        // If borrow state has any of the state bits of the mask not set,
        // then the account is borrowed for that state.
        (borrow_state & mask) != mask
    }

    /// Returns a read-only reference to the lamports in the account.
    ///
    /// # Safety
    ///
    /// This method is unsafe because it does not return a `Ref`, thus leaving the borrow
    /// flag untouched. Useful when an instruction has verified non-duplicate accounts.
    #[inline(always)]
    pub unsafe fn borrow_lamports_unchecked(&self) -> &u64 {
        &(*self.raw).lamports
    }

    /// Returns a mutable reference to the lamports in the account.
    ///
    /// # Safety
    ///
    /// This method is unsafe because it does not return a `Ref`, thus leaving the borrow
    /// flag untouched. Useful when an instruction has verified non-duplicate accounts.
    #[allow(clippy::mut_from_ref)]
    #[inline(always)]
    pub unsafe fn borrow_mut_lamports_unchecked(&self) -> &mut u64 {
        &mut (*self.raw).lamports
    }

    /// Returns a read-only reference to the data in the account.
    ///
    /// # Safety
    ///
    /// This method is unsafe because it does not return a `Ref`, thus leaving the borrow
    /// flag untouched. Useful when an instruction has verified non-duplicate accounts.
    #[inline(always)]
    pub unsafe fn borrow_data_unchecked(&self) -> &[u8] {
        core::slice::from_raw_parts(self.data_ptr(), self.data_len())
    }

    /// Returns a mutable reference to the data in the account.
    ///
    /// # Safety
    ///
    /// This method is unsafe because it does not return a `Ref`, thus leaving the borrow
    /// flag untouched. Useful when an instruction has verified non-duplicate accounts.
    #[allow(clippy::mut_from_ref)]
    #[inline(always)]
    pub unsafe fn borrow_mut_data_unchecked(&self) -> &mut [u8] {
        core::slice::from_raw_parts_mut(self.data_ptr(), self.data_len())
    }

    /// Tries to get a read-only reference to the lamport field, failing if the
    /// field is already mutable borrowed or if 7 borrows already exist.
    pub fn try_borrow_lamports(&self) -> Result<Ref<u64>, ProgramError> {
        // check if the account lamports are already borrowed
        self.can_borrow_lamports()?;

        let borrow_state = self.raw as *mut u8;
        // Use one immutable borrow for lamports by subtracting `1` from the
        // lamports borrow counter bits; we are guaranteed that there is at
        // least one immutable borrow available.
        //
        // SAFETY: The `borrow_state` is a mutable pointer to the borrow state
        // of the account, which is guaranteed to be valid.
        unsafe { *borrow_state -= 1 << LAMPORTS_BORROW_SHIFT };

        // return the reference to lamports
        Ok(Ref {
            value: unsafe { NonNull::from(&(*self.raw).lamports) },
            state: unsafe { NonNull::new_unchecked(borrow_state) },
            borrow_shift: LAMPORTS_BORROW_SHIFT,
            marker: PhantomData,
        })
    }

    /// Tries to get a read only reference to the lamport field, failing if the field
    /// is already borrowed in any form.
    pub fn try_borrow_mut_lamports(&self) -> Result<RefMut<u64>, ProgramError> {
        // check if the account lamports are already borrowed
        self.can_borrow_mut_lamports()?;

        let borrow_state = self.raw as *mut u8;
        // Set the mutable lamports borrow bit to `0`; we are guaranteed
        // that lamports are not already borrowed in any form.
        //
        // SAFETY: The `borrow_state` is a mutable pointer to the borrow state
        // of the account, which is guaranteed to be valid.
        unsafe { *borrow_state &= 0b_0111_1111 };

        // return the mutable reference to lamports
        Ok(RefMut {
            value: unsafe { NonNull::from(&mut (*self.raw).lamports) },
            state: unsafe { NonNull::new_unchecked(borrow_state) },
            borrow_bitmask: LAMPORTS_MUTABLE_BORROW_BITMASK,
            marker: PhantomData,
        })
    }

    /// Checks if it is possible to get a read-only reference to the lamport field,
    /// failing if the field is already mutable borrowed or if 7 borrows already exist.
    #[deprecated(since = "0.8.4", note = "Use `can_borrow_lamports` instead")]
    #[inline(always)]
    pub fn check_borrow_lamports(&self) -> Result<(), ProgramError> {
        self.can_borrow_lamports()
    }

    /// Checks if it is possible to get a read-only reference to the lamport field,
    /// failing if the field is already mutable borrowed or if `7` borrows already exist.
    #[inline(always)]
    pub fn can_borrow_lamports(&self) -> Result<(), ProgramError> {
        let borrow_state = unsafe { (*self.raw).borrow_state };

        // Check whether the mutable lamports borrow bit is already in
        // use (value `0`) or not. If it is `0`, then the borrow will fail.
        if borrow_state & LAMPORTS_MUTABLE_BORROW_BITMASK == 0 {
            return Err(ProgramError::AccountBorrowFailed);
        }

        // Check whether we have reached the maximum immutable lamports borrow count
        // or not, i.e., it fails when all immutable lamports borrow bits are `0`.
        if borrow_state & 0b_0111_0000 == 0 {
            return Err(ProgramError::AccountBorrowFailed);
        }

        Ok(())
    }

    /// Checks if it is possible to get a mutable reference to the lamport field,
    /// failing if the field is already borrowed in any form.
    #[deprecated(since = "0.8.4", note = "Use `can_borrow_mut_lamports` instead")]
    #[inline(always)]
    pub fn check_borrow_mut_lamports(&self) -> Result<(), ProgramError> {
        self.can_borrow_mut_lamports()
    }

    /// Checks if it is possible to get a mutable reference to the lamport field,
    /// failing if the field is already borrowed in any form.
    #[inline(always)]
    pub fn can_borrow_mut_lamports(&self) -> Result<(), ProgramError> {
        let borrow_state = unsafe { (*self.raw).borrow_state };

        // Check whether any (mutable or immutable) lamports borrow bits are
        // in use (value `0`) or not.
        if borrow_state & 0b_1111_0000 != 0b_1111_0000 {
            return Err(ProgramError::AccountBorrowFailed);
        }

        Ok(())
    }

    /// Tries to get a read-only reference to the data field, failing if the field
    /// is already mutable borrowed or if `7` borrows already exist.
    pub fn try_borrow_data(&self) -> Result<Ref<[u8]>, ProgramError> {
        // check if the account data is already borrowed
        self.can_borrow_data()?;

        let borrow_state = self.raw as *mut u8;
        // Use one immutable borrow for data by subtracting `1` from the data
        // borrow counter bits; we are guaranteed that there is at least one
        // immutable borrow available.
        //
        // SAFETY: The `borrow_state` is a mutable pointer to the borrow state
        // of the account, which is guaranteed to be valid.
        unsafe { *borrow_state -= 1 };

        // return the reference to data
        Ok(Ref {
            value: unsafe { NonNull::from(from_raw_parts(self.data_ptr(), self.data_len())) },
            state: unsafe { NonNull::new_unchecked(borrow_state) },
            borrow_shift: DATA_BORROW_SHIFT,
            marker: PhantomData,
        })
    }

    /// Tries to get a mutable reference to the data field, failing if the field
    /// is already borrowed in any form.
    pub fn try_borrow_mut_data(&self) -> Result<RefMut<[u8]>, ProgramError> {
        // check if the account data is already borrowed
        self.can_borrow_mut_data()?;

        let borrow_state = self.raw as *mut u8;
        // Set the mutable data borrow bit to `0`; we are guaranteed that account
        // data is not already borrowed in any form.
        //
        // SAFETY: The `borrow_state` is a mutable pointer to the borrow state
        // of the account, which is guaranteed to be valid.
        unsafe { *borrow_state &= 0b_1111_0111 };

        // return the mutable reference to data
        Ok(RefMut {
            value: unsafe { NonNull::from(from_raw_parts_mut(self.data_ptr(), self.data_len())) },
            state: unsafe { NonNull::new_unchecked(borrow_state) },
            borrow_bitmask: DATA_MUTABLE_BORROW_BITMASK,
            marker: PhantomData,
        })
    }

    /// Checks if it is possible to get a read-only reference to the data field, failing
    /// if the field is already mutable borrowed or if 7 borrows already exist.
    #[deprecated(since = "0.8.4", note = "Use `can_borrow_data` instead")]
    #[inline(always)]
    pub fn check_borrow_data(&self) -> Result<(), ProgramError> {
        self.can_borrow_data()
    }

    /// Checks if it is possible to get a read-only reference to the data field, failing
    /// if the field is already mutable borrowed or if 7 borrows already exist.
    #[inline(always)]
    pub fn can_borrow_data(&self) -> Result<(), ProgramError> {
        let borrow_state = unsafe { (*self.raw).borrow_state };

        // Check whether the mutable data borrow bit is already in
        // use (value `0`) or not. If it is `0`, then the borrow will fail.
        if borrow_state & DATA_MUTABLE_BORROW_BITMASK == 0 {
            return Err(ProgramError::AccountBorrowFailed);
        }

        // Check whether we have reached the maximum immutable data borrow count
        // or not, i.e., it fails when all immutable data borrow bits are `0`.
        if borrow_state & 0b_0000_0111 == 0 {
            return Err(ProgramError::AccountBorrowFailed);
        }

        Ok(())
    }

    /// Checks if it is possible to get a mutable reference to the data field, failing
    /// if the field is already borrowed in any form.
    #[deprecated(since = "0.8.4", note = "Use `can_borrow_mut_data` instead")]
    #[inline(always)]
    pub fn check_borrow_mut_data(&self) -> Result<(), ProgramError> {
        self.can_borrow_mut_data()
    }

    /// Checks if it is possible to get a mutable reference to the data field, failing
    /// if the field is already borrowed in any form.
    #[inline(always)]
    pub fn can_borrow_mut_data(&self) -> Result<(), ProgramError> {
        let borrow_state = unsafe { (*self.raw).borrow_state };

        // Check whether any (mutable or immutable) data borrow bits are
        // in use (value `0`) or not.
        if borrow_state & 0b_0000_1111 != 0b_0000_1111 {
            return Err(ProgramError::AccountBorrowFailed);
        }

        Ok(())
    }

    /// Realloc (either truncating or zero extending) the account's data.
    ///
    /// The account data can be increased by up to [`MAX_PERMITTED_DATA_INCREASE`] bytes
    /// within an instruction.
    ///
    /// # Important
    ///
    /// The use of the `zero_init` parameter, which indicated whether the newly
    /// allocated memory should be zero-initialized or not, is now deprecated and
    /// ignored. The method will always zero-initialize the newly allocated memory
    /// if the new length is larger than the current data length. This is the same
    /// behavior as [`Self::resize`].
    ///
    /// This method makes assumptions about the layout and location of memory
    /// referenced by `AccountInfo` fields. It should only be called for
    /// instances of `AccountInfo` that were created by the runtime and received
    /// in the `process_instruction` entrypoint of a program.
    #[deprecated(since = "0.9.0", note = "Use AccountInfo::resize() instead")]
    #[inline(always)]
    pub fn realloc(&self, new_len: usize, _zero_init: bool) -> Result<(), ProgramError> {
        self.resize(new_len)
    }

    /// Resize (either truncating or zero extending) the account's data.
    ///
    /// The account data can be increased by up to [`MAX_PERMITTED_DATA_INCREASE`] bytes
    /// within an instruction.
    ///
    /// # Important
    ///
    /// This method makes assumptions about the layout and location of memory
    /// referenced by `AccountInfo` fields. It should only be called for
    /// instances of `AccountInfo` that were created by the runtime and received
    /// in the `process_instruction` entrypoint of a program.
    #[inline]
    pub fn resize(&self, new_len: usize) -> Result<(), ProgramError> {
        // Check whether the account data is already borrowed.
        self.can_borrow_mut_data()?;

        // SAFETY:
        // We are checking if the account data is already borrowed, so we are safe to call
        unsafe { self.resize_unchecked(new_len) }
    }

    /// Resize (either truncating or zero extending) the account's data.
    ///
    /// The account data can be increased by up to [`MAX_PERMITTED_DATA_INCREASE`] bytes
    ///
    /// # Safety
    ///
    /// This method is unsafe because it does not check if the account data is already
    /// borrowed. The caller must guarantee that there are no active borrows to the account
    /// data.
    #[inline(always)]
    pub unsafe fn resize_unchecked(&self, new_len: usize) -> Result<(), ProgramError> {
        // Account length is always `< i32::MAX`...
        let current_len = self.data_len() as i32;
        // ...so the new length must fit in an `i32`.
        let new_len = i32::try_from(new_len).map_err(|_| ProgramError::InvalidRealloc)?;

        // Return early if length hasn't changed.
        if new_len == current_len {
            return Ok(());
        }

        let difference = new_len - current_len;
        let accumulated_resize_delta = self.resize_delta() + difference;

        // Return an error when the length increase from the original serialized data
        // length is too large and would result in an out of bounds allocation
        if accumulated_resize_delta > MAX_PERMITTED_DATA_INCREASE as i32 {
            return Err(ProgramError::InvalidRealloc);
        }

        unsafe {
            (*self.raw).data_len = new_len as u64;
            (*self.raw).resize_delta = accumulated_resize_delta;
        }

        if difference > 0 {
            unsafe {
                #[cfg(target_os = "solana")]
                sol_memset_(
                    self.data_ptr().add(current_len as usize),
                    0,
                    difference as u64,
                );
                #[cfg(not(target_os = "solana"))]
                core::ptr::write_bytes(
                    self.data_ptr().add(current_len as usize),
                    0,
                    difference as usize,
                );
            }
        }

        Ok(())
    }

    /// Zero out the the account's data length, lamports and owner fields, effectively
    /// closing the account.
    ///
    /// Note: This does not zero the account data. The account data will be zeroed by
    /// the runtime at the end of the instruction where the account was closed or at the
    /// next CPI call.
    ///
    /// # Important
    ///
    /// The lamports must be moved from the account prior to closing it to prevent
    /// an unbalanced instruction error.
    #[inline]
    pub fn close(&self) -> ProgramResult {
        // make sure the account is not borrowed since we are about to
        // resize the data to zero
        if self.is_borrowed(BorrowState::Borrowed) {
            return Err(ProgramError::AccountBorrowFailed);
        }

        // SAFETY: The are no active borrows on the account data or lamports.
        unsafe {
            // Update the resize delta since closing an account will set its data length
            // to zero (account length is always `< i32::MAX`).
            (*self.raw).resize_delta = self.resize_delta() - self.data_len() as i32;

            self.close_unchecked();
        }

        Ok(())
    }

    /// Zero out the the account's data length, lamports and owner fields, effectively
    /// closing the account.
    ///
    /// Note: This does not zero the account data. The account data will be zeroed by
    /// the runtime at the end of the instruction where the account was closed or at the
    /// next CPI call.
    ///
    /// # Important
    ///
    /// The lamports must be moved from the account prior to closing it to prevent
    /// an unbalanced instruction error.
    ///
    /// If [`Self::realloc`] or [`Self::resize`] are called after closing the account,
    /// they might incorrectly return an error for going over the limit if the account
    /// previously had space allocated since this method does not update the
    /// [`Self::resize_delta`] value.
    ///
    /// # Safety
    ///
    /// This method is unsafe because it does not check if the account data is already
    /// borrowed. It should only be called when the account is not being used.
    ///
    /// It also makes assumptions about the layout and location of memory
    /// referenced by `AccountInfo` fields. It should only be called for
    /// instances of `AccountInfo` that were created by the runtime and received
    /// in the `process_instruction` entrypoint of a program.
    #[inline(always)]
    pub unsafe fn close_unchecked(&self) {
        // We take advantage that the 48 bytes before the account data are:
        // - 32 bytes for the owner
        // - 8 bytes for the lamports
        // - 8 bytes for the data_len
        //
        // So we can zero out them directly.
        #[cfg(target_os = "solana")]
        sol_memset_(self.data_ptr().sub(48), 0, 48);
    }

    /// Returns the memory address of the account data.
    /// # Important
    ///
    /// Obtaining the raw pointer itself is safe, but de-referencing it requires
    /// the caller to uphold Rust's aliasing rules. It is undefined behavior to de-reference
    /// the pointer or write through it while any safe reference (e.g., from any of `borrow_data`
    /// or `borrow_mut_data` methods) to the same data is still alive.
    pub fn data_ptr(&self) -> *mut u8 {
        unsafe { (self.raw as *mut u8).add(core::mem::size_of::<Account>()) }
    }
}

/// Number of bits of the [`Account::borrow_state`] flag to shift to get to
/// the borrow state bits for lamports.
///   - `7 6 5 4 3 2 1 0`
///   - `x x x x . . . .`
const LAMPORTS_BORROW_SHIFT: u8 = 4;

/// Number of bits of the [`Account::borrow_state`] flag to shift to get to
/// the borrow state bits for account data.
///   - `7 6 5 4 3 2 1 0`
///   - `. . . . x x x x`
const DATA_BORROW_SHIFT: u8 = 0;

/// Reference to account data or lamports with checked borrow rules.
#[derive(Debug)]
pub struct Ref<'a, T: ?Sized> {
    value: NonNull<T>,
    state: NonNull<u8>,
    /// Indicates the type of borrow (lamports or data) by representing the
    /// shift amount.
    borrow_shift: u8,
    /// The `value` raw pointer is only valid while the `&'a T` lives so we claim
    /// to hold a reference to it.
    marker: PhantomData<&'a T>,
}

impl<'a, T: ?Sized> Ref<'a, T> {
    /// Maps a reference to a new type.
    #[inline]
    pub fn map<U: ?Sized, F>(orig: Ref<'a, T>, f: F) -> Ref<'a, U>
    where
        F: FnOnce(&T) -> &U,
    {
        // Avoid decrementing the borrow flag on Drop.
        let orig = ManuallyDrop::new(orig);
        Ref {
            value: NonNull::from(f(&*orig)),
            state: orig.state,
            borrow_shift: orig.borrow_shift,
            marker: PhantomData,
        }
    }

    /// Tries to makes a new `Ref` for a component of the borrowed data.
    /// On failure, the original guard is returned alongside with the error
    /// returned by the closure.
    #[inline]
    pub fn try_map<U: ?Sized, E>(
        orig: Ref<'a, T>,
        f: impl FnOnce(&T) -> Result<&U, E>,
    ) -> Result<Ref<'a, U>, (Self, E)> {
        // Avoid decrementing the borrow flag on Drop.
        let orig = ManuallyDrop::new(orig);
        match f(&*orig) {
            Ok(value) => Ok(Ref {
                value: NonNull::from(value),
                state: orig.state,
                borrow_shift: orig.borrow_shift,
                marker: PhantomData,
            }),
            Err(e) => Err((ManuallyDrop::into_inner(orig), e)),
        }
    }

    /// Filters and maps a reference to a new type.
    #[inline]
    pub fn filter_map<U: ?Sized, F>(orig: Ref<'a, T>, f: F) -> Result<Ref<'a, U>, Self>
    where
        F: FnOnce(&T) -> Option<&U>,
    {
        // Avoid decrementing the borrow flag on Drop.
        let orig = ManuallyDrop::new(orig);

        match f(&*orig) {
            Some(value) => Ok(Ref {
                value: NonNull::from(value),
                state: orig.state,
                borrow_shift: orig.borrow_shift,
                marker: PhantomData,
            }),
            None => Err(ManuallyDrop::into_inner(orig)),
        }
    }
}

impl<T: ?Sized> core::ops::Deref for Ref<'_, T> {
    type Target = T;
    fn deref(&self) -> &Self::Target {
        unsafe { self.value.as_ref() }
    }
}

impl<T: ?Sized> Drop for Ref<'_, T> {
    // decrement the immutable borrow count
    fn drop(&mut self) {
        unsafe { *self.state.as_mut() += 1 << self.borrow_shift };
    }
}

/// Mask representing the mutable borrow flag for lamports.
const LAMPORTS_MUTABLE_BORROW_BITMASK: u8 = 0b_1000_0000;

/// Mask representing the mutable borrow flag for data.
const DATA_MUTABLE_BORROW_BITMASK: u8 = 0b_0000_1000;

/// Mutable reference to account data or lamports with checked borrow rules.
#[derive(Debug)]
pub struct RefMut<'a, T: ?Sized> {
    value: NonNull<T>,
    state: NonNull<u8>,
    /// Indicates borrowed field (lamports or data) by storing the bitmask
    /// representing the mutable borrow.
    borrow_bitmask: u8,
    /// The `value` raw pointer is only valid while the `&'a T` lives so we claim
    /// to hold a reference to it.
    marker: PhantomData<&'a mut T>,
}

impl<'a, T: ?Sized> RefMut<'a, T> {
    /// Maps a mutable reference to a new type.
    #[inline]
    pub fn map<U: ?Sized, F>(orig: RefMut<'a, T>, f: F) -> RefMut<'a, U>
    where
        F: FnOnce(&mut T) -> &mut U,
    {
        // Avoid decrementing the borrow flag on Drop.
        let mut orig = ManuallyDrop::new(orig);
        RefMut {
            value: NonNull::from(f(&mut *orig)),
            state: orig.state,
            borrow_bitmask: orig.borrow_bitmask,
            marker: PhantomData,
        }
    }

    /// Tries to makes a new `RefMut` for a component of the borrowed data.
    /// On failure, the original guard is returned alongside with the error
    /// returned by the closure.
    #[inline]
    pub fn try_map<U: ?Sized, E>(
        orig: RefMut<'a, T>,
        f: impl FnOnce(&mut T) -> Result<&mut U, E>,
    ) -> Result<RefMut<'a, U>, (Self, E)> {
        // Avoid decrementing the borrow flag on Drop.
        let mut orig = ManuallyDrop::new(orig);
        match f(&mut *orig) {
            Ok(value) => Ok(RefMut {
                value: NonNull::from(value),
                state: orig.state,
                borrow_bitmask: orig.borrow_bitmask,
                marker: PhantomData,
            }),
            Err(e) => Err((ManuallyDrop::into_inner(orig), e)),
        }
    }

    /// Filters and maps a mutable reference to a new type.
    #[inline]
    pub fn filter_map<U: ?Sized, F>(orig: RefMut<'a, T>, f: F) -> Result<RefMut<'a, U>, Self>
    where
        F: FnOnce(&mut T) -> Option<&mut U>,
    {
        // Avoid decrementing the mutable borrow flag on Drop.
        let mut orig = ManuallyDrop::new(orig);
        match f(&mut *orig) {
            Some(value) => Ok(RefMut {
                value: NonNull::from(value),
                state: orig.state,
                borrow_bitmask: orig.borrow_bitmask,
                marker: PhantomData,
            }),
            None => Err(ManuallyDrop::into_inner(orig)),
        }
    }
}

impl<T: ?Sized> core::ops::Deref for RefMut<'_, T> {
    type Target = T;
    fn deref(&self) -> &Self::Target {
        unsafe { self.value.as_ref() }
    }
}
impl<T: ?Sized> core::ops::DerefMut for RefMut<'_, T> {
    fn deref_mut(&mut self) -> &mut <Self as core::ops::Deref>::Target {
        unsafe { self.value.as_mut() }
    }
}

impl<T: ?Sized> Drop for RefMut<'_, T> {
    fn drop(&mut self) {
        // unset the mutable borrow flag
        unsafe { *self.state.as_mut() |= self.borrow_bitmask };
    }
}

#[cfg(test)]
mod tests {
    use core::mem::{size_of, MaybeUninit};

    use crate::entrypoint::NON_DUP_MARKER as NOT_BORROWED;

    use super::*;

    #[test]
    fn test_data_ref() {
        let data: [u8; 4] = [0, 1, 2, 3];
        let mut state = NOT_BORROWED - (1 << DATA_BORROW_SHIFT);

        let ref_data = Ref {
            value: NonNull::from(&data),
            borrow_shift: DATA_BORROW_SHIFT,
            // borrow state must be a mutable reference
            state: NonNull::from(&mut state),
            marker: PhantomData,
        };

        let new_ref = Ref::map(ref_data, |data| &data[1]);

        assert_eq!(state, NOT_BORROWED - (1 << DATA_BORROW_SHIFT));
        assert_eq!(*new_ref, 1);

        let Ok(new_ref) = Ref::filter_map(new_ref, |_| Some(&3)) else {
            unreachable!()
        };

        assert_eq!(state, NOT_BORROWED - (1 << DATA_BORROW_SHIFT));
        assert_eq!(*new_ref, 3);

        let Ok(new_ref) = Ref::try_map::<_, u8>(new_ref, |_| Ok(&4)) else {
            unreachable!()
        };

        assert_eq!(state, NOT_BORROWED - (1 << DATA_BORROW_SHIFT));
        assert_eq!(*new_ref, 4);

        let (new_ref, err) = Ref::try_map::<u8, u8>(new_ref, |_| Err(5)).unwrap_err();
        assert_eq!(state, NOT_BORROWED - (1 << DATA_BORROW_SHIFT));
        assert_eq!(err, 5);
        // Unchanged
        assert_eq!(*new_ref, 4);

        let new_ref = Ref::filter_map(new_ref, |_| Option::<&u8>::None);

        assert_eq!(state, NOT_BORROWED - (1 << DATA_BORROW_SHIFT));
        assert!(new_ref.is_err());

        drop(new_ref);

        assert_eq!(state, NOT_BORROWED);
    }

    #[test]
    fn test_lamports_ref() {
        let lamports: u64 = 10000;
        let mut state = NOT_BORROWED - (1 << LAMPORTS_BORROW_SHIFT);

        let ref_lamports = Ref {
            value: NonNull::from(&lamports),
            borrow_shift: LAMPORTS_BORROW_SHIFT,
            // borrow state must be a mutable reference
            state: NonNull::from(&mut state),
            marker: PhantomData,
        };

        let new_ref = Ref::map(ref_lamports, |_| &1000);

        assert_eq!(state, NOT_BORROWED - (1 << LAMPORTS_BORROW_SHIFT));
        assert_eq!(*new_ref, 1000);

        let Ok(new_ref) = Ref::filter_map(new_ref, |_| Some(&2000)) else {
            unreachable!()
        };

        assert_eq!(state, NOT_BORROWED - (1 << LAMPORTS_BORROW_SHIFT));
        assert_eq!(*new_ref, 2000);

        let new_ref = Ref::filter_map(new_ref, |_| Option::<&i32>::None);

        assert_eq!(state, NOT_BORROWED - (1 << LAMPORTS_BORROW_SHIFT));
        assert!(new_ref.is_err());

        drop(new_ref);

        assert_eq!(state, NOT_BORROWED);
    }

    #[test]
    fn test_data_ref_mut() {
        let mut data: [u8; 4] = [0, 1, 2, 3];
        let mut state = 0b_1111_0111;

        let ref_data = RefMut {
            value: NonNull::from(&mut data),
            borrow_bitmask: DATA_MUTABLE_BORROW_BITMASK,
            // borrow state must be a mutable reference
            state: NonNull::from(&mut state),
            marker: PhantomData,
        };

        let Ok(mut new_ref) = RefMut::filter_map(ref_data, |data| data.get_mut(0)) else {
            unreachable!()
        };

        *new_ref = 4;

        assert_eq!(state, 0b_1111_0111);
        assert_eq!(*new_ref, 4);

        drop(new_ref);

        assert_eq!(data, [4, 1, 2, 3]);
        assert_eq!(state, NOT_BORROWED);
    }

    #[test]
    fn test_lamports_ref_mut() {
        let mut lamports: u64 = 10000;
        let mut state = 0b_0111_1111;

        let ref_lamports = RefMut {
            value: NonNull::from(&mut lamports),
            borrow_bitmask: LAMPORTS_MUTABLE_BORROW_BITMASK,
            // borrow state must be a mutable reference
            state: NonNull::from(&mut state),
            marker: PhantomData,
        };

        let new_ref = RefMut::map(ref_lamports, |lamports| {
            *lamports = 200;
            lamports
        });

        assert_eq!(state, 0b_0111_1111);
        assert_eq!(*new_ref, 200);

        drop(new_ref);

        assert_eq!(lamports, 200);
        assert_eq!(state, NOT_BORROWED);
    }

    #[test]
    fn test_borrow_data() {
        // 8-bytes aligned account data.
        let mut data = [0u64; size_of::<Account>() / size_of::<u64>() + 1]; // extra byte at end for account data
                                                                            // Set the borrow state.
        data[0] = NOT_BORROWED as u64;
        let account_info = AccountInfo {
            raw: data.as_mut_ptr() as *mut Account,
        };

        // Check that we can borrow data and lamports.
        assert!(account_info.can_borrow_data().is_ok());
        assert!(account_info.can_borrow_mut_data().is_ok());
        assert!(account_info.can_borrow_lamports().is_ok());
        assert!(account_info.can_borrow_mut_lamports().is_ok());

        // It should be sound to mutate the data through the data pointer while no other borrows exist
        let data_ptr = account_info.data_ptr();
        unsafe {
            let data = core::slice::from_raw_parts_mut(data_ptr, 1); // Data is 1 byte long!
            data[0] = 1;
        }

        // Borrow immutable data (7 immutable borrows available).
        const ACCOUNT_REF: MaybeUninit<Ref<[u8]>> = MaybeUninit::<Ref<[u8]>>::uninit();
        let mut refs = [ACCOUNT_REF; 7];

        refs.iter_mut().for_each(|r| {
            let Ok(data_ref) = account_info.try_borrow_data() else {
                panic!("Failed to borrow data");
            };
            r.write(data_ref);
        });

        // Check that we cannot borrow the data anymore.
        assert!(account_info.can_borrow_data().is_err());
        assert!(account_info.try_borrow_data().is_err());
        assert!(account_info.can_borrow_mut_data().is_err());
        assert!(account_info.try_borrow_mut_data().is_err());
        // Lamports should still be borrowable.
        assert!(account_info.can_borrow_lamports().is_ok());
        assert!(account_info.can_borrow_mut_lamports().is_ok());

        // Drop the immutable borrows.
        refs.iter_mut().for_each(|r| {
            let r = unsafe { r.assume_init_read() };
            drop(r);
        });

        // We should be able to borrow the data again.
        assert!(account_info.can_borrow_data().is_ok());
        assert!(account_info.can_borrow_mut_data().is_ok());

        // Borrow mutable data.
        let ref_mut = account_info.try_borrow_mut_data().unwrap();
        // It should be sound to get the data pointer while the data is borrowed as long as we don't use it
        let _data_ptr = account_info.data_ptr();

        // Check that we cannot borrow the data anymore.
        assert!(account_info.can_borrow_data().is_err());
        assert!(account_info.try_borrow_data().is_err());
        assert!(account_info.can_borrow_mut_data().is_err());
        assert!(account_info.try_borrow_mut_data().is_err());

        drop(ref_mut);

        // We should be able to borrow the data again.
        assert!(account_info.can_borrow_data().is_ok());
        assert!(account_info.can_borrow_mut_data().is_ok());

        let borrow_state = unsafe { (*account_info.raw).borrow_state };
        assert!(borrow_state == NOT_BORROWED);
    }

    #[test]
    fn test_borrow_lamports() {
        // 8-bytes aligned account data.
        let mut data = [0u64; size_of::<Account>() / size_of::<u64>()];
        // Set the borrow state.
        data[0] = NOT_BORROWED as u64;
        let account_info = AccountInfo {
            raw: data.as_mut_ptr() as *mut Account,
        };

        // Check that we can borrow lamports and data.
        assert!(account_info.can_borrow_lamports().is_ok());
        assert!(account_info.can_borrow_mut_lamports().is_ok());
        assert!(account_info.can_borrow_data().is_ok());
        assert!(account_info.can_borrow_mut_data().is_ok());

        // Borrow immutable lamports (7 immutable borrows available).
        const LAMPORTS_REF: MaybeUninit<Ref<u64>> = MaybeUninit::<Ref<u64>>::uninit();
        let mut refs = [LAMPORTS_REF; 7];

        refs.iter_mut().for_each(|r| {
            let Ok(lamports_ref) = account_info.try_borrow_lamports() else {
                panic!("Failed to borrow lamports");
            };
            r.write(lamports_ref);
        });

        // Check that we cannot borrow the lamports anymore.
        assert!(account_info.can_borrow_lamports().is_err());
        assert!(account_info.try_borrow_lamports().is_err());
        assert!(account_info.can_borrow_mut_lamports().is_err());
        assert!(account_info.try_borrow_mut_lamports().is_err());
        // Data should still be borrowable.
        assert!(account_info.can_borrow_data().is_ok());
        assert!(account_info.can_borrow_mut_data().is_ok());

        // Drop the immutable borrows.
        refs.iter_mut().for_each(|r| {
            let r = unsafe { r.assume_init_read() };
            drop(r);
        });

        // We should be able to borrow the lamports again.
        assert!(account_info.can_borrow_lamports().is_ok());
        assert!(account_info.can_borrow_mut_lamports().is_ok());

        // Borrow mutable lamports.
        let ref_mut = account_info.try_borrow_mut_lamports().unwrap();

        // Check that we cannot borrow the lamports anymore.
        assert!(account_info.can_borrow_lamports().is_err());
        assert!(account_info.try_borrow_lamports().is_err());
        assert!(account_info.can_borrow_mut_lamports().is_err());
        assert!(account_info.try_borrow_mut_lamports().is_err());

        drop(ref_mut);

        // We should be able to borrow the data again.
        assert!(account_info.can_borrow_lamports().is_ok());
        assert!(account_info.can_borrow_mut_lamports().is_ok());

        let borrow_state = unsafe { (*account_info.raw).borrow_state };
        assert!(borrow_state == NOT_BORROWED);
    }

    #[test]
    #[allow(deprecated)]
    fn test_realloc() {
        // 8-bytes aligned account data.
        let mut data = [0u64; 100 * size_of::<u64>()];

        // Set the borrow state.
        data[0] = NOT_BORROWED as u64;
        // Set the initial data length to 100.
        //   - index `10` is equal to offset `10 * size_of::<u64>() = 80` bytes.
        data[10] = 100;

        let account = AccountInfo {
            raw: data.as_mut_ptr() as *const _ as *mut Account,
        };

        assert_eq!(account.data_len(), 100);
        assert_eq!(account.resize_delta(), 0);

        // We should be able to get the data pointer whenever as long as we don't use it while the data is borrowed
        let data_ptr_before = account.data_ptr();

        // increase the size.

        account.realloc(200, false).unwrap();

        let data_ptr_after = account.data_ptr();
        // The data pointer should point to the same address regardless of the reallocation
        assert_eq!(data_ptr_before, data_ptr_after);

        assert_eq!(account.data_len(), 200);
        assert_eq!(account.resize_delta(), 100);

        // decrease the size.

        account.realloc(0, false).unwrap();

        assert_eq!(account.data_len(), 0);
        assert_eq!(account.resize_delta(), -100);

        // Invalid reallocation.

        let invalid_realloc = account.realloc(10_000_000_001, false);
        assert!(invalid_realloc.is_err());

        // Reset to its original size.

        account.realloc(100, false).unwrap();

        assert_eq!(account.data_len(), 100);
        assert_eq!(account.resize_delta(), 0);

        // Consecutive reallocations.

        account.realloc(200, false).unwrap();
        account.realloc(50, false).unwrap();
        account.realloc(500, false).unwrap();

        assert_eq!(account.data_len(), 500);
        assert_eq!(account.resize_delta(), 400);

        let data = account.try_borrow_data().unwrap();
        assert_eq!(data.len(), 500);
    }
}
