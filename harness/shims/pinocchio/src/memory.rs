//! Basic low-level memory operations.
//!
//! Within the SBF environment, these are implemented as syscalls and executed by
//! the runtime in native code.

#[cfg(target_os = "solana")]
use crate::syscalls;

/// Like C `memcpy`.
///
/// # Arguments
///
/// - `dst` - Destination
/// - `src` - Source
/// - `n` - Number of bytes to copy
///
/// # Errors
///
/// When executed within a SBF program, the memory regions spanning `n` bytes
/// from from the start of `dst` and `src` must be mapped program memory. If not,
/// the program will abort.
///
/// The memory regions spanning `n` bytes from `dst` and `src` from the start
/// of `dst` and `src` must not overlap. If they do, then the program will abort
/// or, if run outside of the SBF VM, will panic.
///
/// # Safety
///
/// This function does not verify that `n` is less than or equal to the
/// lengths of the `dst` and `src` slices passed to it - it will copy
/// bytes to and from beyond the slices.
///
/// Specifying an `n` greater than either the length of `dst` or `src` will
/// likely introduce undefined behavior.
#[inline]
pub unsafe fn sol_memcpy(dst: &mut [u8], src: &[u8], n: usize) {
    #[cfg(target_os = "solana")]
    syscalls::sol_memcpy_(dst.as_mut_ptr(), src.as_ptr(), n as u64);

    #[cfg(not(target_os = "solana"))]
    core::hint::black_box((dst, src, n));
}

/// Copies the contents of one value to another.
///
/// Equivalent to `dst = src` where `dst` and `src`
/// are of same type and `impl Copy`.
///
/// This helper will be useful to optimize CU if
/// copied size is `> 32` bytes.
///
/// For value smaller than `32` bytes, `dst = src`
/// will be emitted to register assignment. For
/// values larger than `32` bytes, compiler will
/// generate excess boilerplate to `sol_memcpy_`.
/// So if `T`'s size is known to be `> 32` bytes,
/// this helper should be used.
///
/// # Arguments
///
/// - `dst` - Destination reference to copy to
/// - `src` - Source reference to copy from
#[inline]
pub fn copy_val<T: Copy>(dst: &mut T, src: &T) {
    #[cfg(target_os = "solana")]
    // SAFETY: `dst` and `src` are of same type therefore the size
    // is the same.
    unsafe {
        syscalls::sol_memcpy_(
            dst as *mut T as *mut u8,
            src as *const T as *const u8,
            core::mem::size_of::<T>() as u64,
        );
    }

    #[cfg(not(target_os = "solana"))]
    {
        *dst = *src;
    }
}

/// Like C `memmove`.
///
/// # Arguments
///
/// - `dst` - Destination
/// - `src` - Source
/// - `n` - Number of bytes to copy
///
/// # Errors
///
/// When executed within a SBF program, the memory regions spanning `n` bytes
/// from from `dst` and `src` must be mapped program memory. If not, the program
/// will abort.
///
/// # Safety
///
/// The same safety rules apply as in [`ptr::copy`].
///
/// [`ptr::copy`]: https://doc.rust-lang.org/std/ptr/fn.copy.html
#[inline]
pub unsafe fn sol_memmove(dst: *mut u8, src: *const u8, n: usize) {
    #[cfg(target_os = "solana")]
    syscalls::sol_memmove_(dst, src, n as u64);

    #[cfg(not(target_os = "solana"))]
    core::hint::black_box((dst, src, n));
}

/// Like C `memcmp`.
///
/// # Arguments
///
/// - `s1` - Slice to be compared
/// - `s2` - Slice to be compared
/// - `n` - Number of bytes to compare
///
/// # Errors
///
/// When executed within a SBF program, the memory regions spanning `n` bytes
/// from from the start of `dst` and `src` must be mapped program memory. If not,
/// the program will abort.
///
/// # Safety
///
/// It does not verify that `n` is less than or equal to the lengths of the
/// `dst` and `src` slices passed to it - it will read bytes beyond the
/// slices.
///
/// Specifying an `n` greater than either the length of `dst` or `src` will
/// likely introduce undefined behavior.
#[inline]
pub unsafe fn sol_memcmp(s1: &[u8], s2: &[u8], n: usize) -> i32 {
    #[allow(unused_mut)]
    let mut result = 0;

    #[cfg(target_os = "solana")]
    syscalls::sol_memcmp_(s1.as_ptr(), s2.as_ptr(), n as u64, &mut result as *mut i32);

    #[cfg(not(target_os = "solana"))]
    core::hint::black_box((s1, s2, n, result));

    result
}

/// Like C `memset`.
///
/// # Arguments
///
/// - `s` - Slice to be set
/// - `c` - Repeated byte to set
/// - `n` - Number of bytes to set
///
/// # Errors
///
/// When executed within a SBF program, the memory region spanning `n` bytes
/// from from the start of `s` must be mapped program memory. If not, the program
/// will abort.
///
/// # Safety
///
/// This function does not verify that `n` is less than or equal to the length
/// of the `s` slice passed to it - it will write bytes beyond the
/// slice.
///
/// Specifying an `n` greater than the length of `s` will likely introduce
/// undefined behavior.
#[inline]
pub unsafe fn sol_memset(s: &mut [u8], c: u8, n: usize) {
    #[cfg(target_os = "solana")]
    syscalls::sol_memset_(s.as_mut_ptr(), c, n as u64);

    #[cfg(not(target_os = "solana"))]
    core::hint::black_box((s, c, n));
}
