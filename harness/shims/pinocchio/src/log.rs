//! Logging utilities for Rust-based Solana programs.
//!
//! Logging is the main mechanism for getting debugging information out of
//! running Solana programs, and there are several functions available for doing
//! so efficiently, depending on the type of data being logged.
//!
//! The most common way to emit logs is through the [`msg!`] macro, which logs
//! simple strings, as well as [formatted strings][fs].
//!
//! [`msg!`]: crate::msg!
//! [fs]: https://doc.rust-lang.org/std/fmt/
//!
//! Logs can be viewed in multiple ways:
//!
//! - The `solana logs` command displays logs for all transactions executed on a
//!   network. Note though that transactions that fail during pre-flight
//!   simulation are not displayed here.
//! - When submitting transactions via [`RpcClient`], if Rust's own logging is
//!   active then the `solana_rpc_client` crate logs at the "debug" level any logs
//!   for transactions that failed during simulation. If using [`env_logger`]
//!   these logs can be activated by setting `RUST_LOG=solana_rpc_client=debug`.
//! - Logs can be retrieved from a finalized transaction by calling
//!   [`RpcClient::get_transaction`].
//! - Block explorers may display logs.
//!
//! [`RpcClient`]: https://docs.rs/solana-rpc-client/latest/solana_rpc_client/rpc_client/struct.RpcClient.html
//! [`env_logger`]: https://docs.rs/env_logger
//! [`RpcClient::get_transaction`]: https://docs.rs/solana-rpc-client/latest/solana_rpc_client/rpc_client/struct.RpcClient.html#method.get_transaction
//!
//! While most logging functions are defined in this module, [`Pubkey`]s can
//! also be efficiently logged with the [`pubkey::log`] function.
//!
//! [`Pubkey`]: crate::pubkey::Pubkey
//! [`pubkey::log`]: crate::pubkey::log

use crate::{account_info::AccountInfo, pubkey};

/// Print a message to the log.
///
/// Supports simple strings of type `&str`. The expression will be passed
/// directly to [`sol_log`]. This is typically used for logging static strings.
///
/// # Examples
///
/// ```
/// use pinocchio::msg;
///
/// msg!("verifying multisig");
/// ```
#[macro_export]
#[cfg(not(feature = "std"))]
macro_rules! msg {
    ( $msg:expr ) => {
        $crate::log::sol_log($msg)
    };
}

/// Print a message to the log.
///
/// Supports simple strings as well as Rust [format strings][fs]. When passed a
/// single expression it will be passed directly to [`sol_log`]. The expression
/// must have type `&str`, and is typically used for logging static strings.
/// When passed something other than an expression, particularly
/// a sequence of expressions, the tokens will be passed through the
/// [`format!`] macro before being logged with `sol_log`.
///
/// [fs]: https://doc.rust-lang.org/std/fmt/
/// [`format!`]: https://doc.rust-lang.org/std/fmt/fn.format.html
///
/// Note that Rust's formatting machinery is relatively CPU-intensive
/// for constrained environments like the Solana VM.
///
/// # Examples
///
/// ```
/// use pinocchio::msg;
///
/// // The fast form
/// msg!("verifying multisig");
///
/// // With formatting
/// let err = "not enough signers";
/// msg!("multisig failed: {}", err);
/// ```
#[cfg(feature = "std")]
#[macro_export]
macro_rules! msg {
    ( $msg:expr ) => {
        $crate::log::sol_log($msg)
    };
    ( $( $arg:tt )* ) => ($crate::log::sol_log(&format!($($arg)*)));
}

/// Print a string to the log.
#[inline(always)]
pub fn sol_log(message: &str) {
    #[cfg(target_os = "solana")]
    unsafe {
        crate::syscalls::sol_log_(message.as_ptr(), message.len() as u64);
    }

    #[cfg(not(target_os = "solana"))]
    {
        // VERIF SHIM
        extern "Rust" {
            fn verif_pino_log(message: &[u8]);
        }
        unsafe { verif_pino_log(message.as_bytes()) };
    }
}

/// Print 64-bit values represented as hexadecimal to the log.
#[inline]
pub fn sol_log_64(arg1: u64, arg2: u64, arg3: u64, arg4: u64, arg5: u64) {
    #[cfg(target_os = "solana")]
    unsafe {
        crate::syscalls::sol_log_64_(arg1, arg2, arg3, arg4, arg5);
    }

    #[cfg(not(target_os = "solana"))]
    core::hint::black_box((arg1, arg2, arg3, arg4, arg5));
}

/// Print some slices as `base64`.
pub fn sol_log_data(data: &[&[u8]]) {
    #[cfg(target_os = "solana")]
    unsafe {
        crate::syscalls::sol_log_data(data as *const _ as *const u8, data.len() as u64)
    };

    #[cfg(not(target_os = "solana"))]
    {
        // VERIF SHIM
        extern "Rust" {
            fn verif_pino_log_data(data: &[&[u8]]);
        }
        unsafe { verif_pino_log_data(data) };
    }
}

/// Print the hexadecimal representation of a slice.
pub fn sol_log_slice(slice: &[u8]) {
    for (i, s) in slice.iter().enumerate() {
        sol_log_64(0, 0, 0, i as u64, *s as u64);
    }
}

/// Print the hexadecimal representation of the program's input parameters.
///
/// - `accounts` - A slice of [`AccountInfo`].
/// - `data` - The instruction data.
pub fn sol_log_params(accounts: &[AccountInfo], data: &[u8]) {
    for (i, account) in accounts.iter().enumerate() {
        msg!("AccountInfo");
        sol_log_64(0, 0, 0, 0, i as u64);
        msg!("- Is signer");
        sol_log_64(0, 0, 0, 0, account.is_signer() as u64);
        msg!("- Key");
        pubkey::log(account.key());
        msg!("- Lamports");
        sol_log_64(0, 0, 0, 0, account.lamports());
        msg!("- Account data length");
        sol_log_64(0, 0, 0, 0, account.data_len() as u64);
        msg!("- Owner");
        pubkey::log(account.owner());
    }
    msg!("Instruction data");
    sol_log_slice(data);
}

/// Print the remaining compute units available to the program.
#[inline]
pub fn sol_log_compute_units() {
    #[cfg(target_os = "solana")]
    unsafe {
        crate::syscalls::sol_log_compute_units_();
    }
}
