//! Public key type and functions.

use core::ptr::read_unaligned;

use crate::program_error::ProgramError;

/// Number of bytes in a pubkey.
pub const PUBKEY_BYTES: usize = 32;

/// maximum length of derived `Pubkey` seed.
pub const MAX_SEED_LEN: usize = 32;

/// Maximum number of seeds.
pub const MAX_SEEDS: usize = 16;

/// The marker used to derive [program derived addresses][pda].
///
/// [pda]: https://solana.com/docs/core/pda
pub const PDA_MARKER: &[u8; 21] = b"ProgramDerivedAddress";

/// The address of a [Solana account][account].
///
/// [account]: https://solana.com/docs/core/accounts
pub type Pubkey = [u8; PUBKEY_BYTES];

/// Log a `Pubkey` from a program.
#[inline(always)]
pub fn log(pubkey: &Pubkey) {
    #[cfg(target_os = "solana")]
    unsafe {
        crate::syscalls::sol_log_pubkey(pubkey as *const _ as *const u8)
    };

    #[cfg(not(target_os = "solana"))]
    core::hint::black_box(pubkey);
}

/// Compare two `Pubkey`s for equality.
///
/// The implementation of this function is currently more efficient
/// than `p1 == p2` since it compares 8 bytes at a time instead of
/// byte-by-byte.
#[inline(always)]
pub const fn pubkey_eq(p1: &Pubkey, p2: &Pubkey) -> bool {
    let p1_ptr = p1.as_ptr() as *const u64;
    let p2_ptr = p2.as_ptr() as *const u64;

    unsafe {
        read_unaligned(p1_ptr) == read_unaligned(p2_ptr)
            && read_unaligned(p1_ptr.add(1)) == read_unaligned(p2_ptr.add(1))
            && read_unaligned(p1_ptr.add(2)) == read_unaligned(p2_ptr.add(2))
            && read_unaligned(p1_ptr.add(3)) == read_unaligned(p2_ptr.add(3))
    }
}

/// Find a valid [program derived address][pda] and its corresponding bump seed.
///
/// [pda]: https://solana.com/docs/core/cpi#program-derived-addresses
///
/// Program derived addresses (PDAs) are account keys that only the program,
/// `program_id`, has the authority to sign. The address is of the same form
/// as a Solana `Pubkey`, except they are ensured to not be on the ed25519
/// curve and thus have no associated private key. When performing
/// cross-program invocations the program can "sign" for the key by calling
/// [`invoke_signed`] and passing the same seeds used to generate the
/// address, along with the calculated _bump seed_, which this function
/// returns as the second tuple element. The runtime will verify that the
/// program associated with this address is the caller and thus authorized
/// to be the signer.
///
/// [`invoke_signed`]: crate::program::invoke_signed
///
/// The `seeds` are application-specific, and must be carefully selected to
/// uniquely derive accounts per application requirements. It is common to
/// use static strings and other pubkeys as seeds.
///
/// Because the program address must not lie on the ed25519 curve, there may
/// be seed and program id combinations that are invalid. For this reason,
/// an extra seed (the bump seed) is calculated that results in a
/// point off the curve. The bump seed must be passed as an additional seed
/// when calling `invoke_signed`.
///
/// The processes of finding a valid program address is by trial and error,
/// and even though it is deterministic given a set of inputs it can take a
/// variable amount of time to succeed across different inputs.  This means
/// that when called from an on-chain program it may incur a variable amount
/// of the program's compute budget.  Programs that are meant to be very
/// performant may not want to use this function because it could take a
/// considerable amount of time. Programs that are already at risk
/// of exceeding their compute budget should call this with care since
/// there is a chance that the program's budget may be occasionally
/// and unpredictably exceeded.
///
/// As all account addresses accessed by an on-chain Solana program must be
/// explicitly passed to the program, it is typical for the PDAs to be
/// derived in off-chain client programs, avoiding the compute cost of
/// generating the address on-chain. The address may or may not then be
/// verified by re-deriving it on-chain, depending on the requirements of
/// the program. This verification may be performed without the overhead of
/// re-searching for the bump key by using the [`create_program_address`]
/// function.
///
/// [`create_program_address`]: crate::pubkey::create_program_address
///
/// **Warning**: Because of the way the seeds are hashed there is a potential
/// for program address collisions for the same program id.  The seeds are
/// hashed sequentially which means that seeds `"abcdef"`, `["abc", "def"]`,
/// and `["ab", "cd", "ef"]` will all result in the same program address given
/// the same program id. Since the chance of collision is local to a given
/// program id, the developer of that program must take care to choose seeds
/// that do not collide with each other. For seed schemes that are susceptible
/// to this type of hash collision, a common remedy is to insert separators
/// between seeds, e.g. transforming `["abc", "def"]` into `["abc", "-", "def"]`.
///
/// # Panics
///
/// Panics in the statistically improbable event that a bump seed could not be
/// found. Use [`try_find_program_address`] to handle this case.
///
/// [`try_find_program_address`]: #try_find_program_address
///
/// Panics if any of the following are true:
///
/// - the number of provided seeds is greater than, _or equal to_, [`MAX_SEEDS`],
/// - any individual seed's length is greater than [`MAX_SEED_LEN`].
#[inline(always)]
pub fn find_program_address(seeds: &[&[u8]], program_id: &Pubkey) -> (Pubkey, u8) {
    try_find_program_address(seeds, program_id)
        .unwrap_or_else(|| panic!("Unable to find a viable program address bump seed"))
}

/// Find a valid [program derived address][pda] and its corresponding bump seed.
///
/// [pda]: https://solana.com/docs/core/cpi#program-derived-addresses
///
/// The only difference between this method and [`find_program_address`]
/// is that this one returns `None` in the statistically improbable event
/// that a bump seed cannot be found; or if any of `find_program_address`'s
/// preconditions are violated.
///
/// See the documentation for [`find_program_address`] for a full description.
///
/// [`find_program_address`]: #find_program_address
#[inline]
pub fn try_find_program_address(seeds: &[&[u8]], program_id: &Pubkey) -> Option<(Pubkey, u8)> {
    #[cfg(target_os = "solana")]
    {
        let mut bytes = core::mem::MaybeUninit::<[u8; PUBKEY_BYTES]>::uninit();
        let mut bump_seed = u8::MAX;

        let result = unsafe {
            crate::syscalls::sol_try_find_program_address(
                seeds as *const _ as *const u8,
                seeds.len() as u64,
                program_id as *const _,
                bytes.as_mut_ptr() as *mut _,
                &mut bump_seed as *mut _,
            )
        };
        match result {
            // SAFETY: The syscall has initialized the bytes.
            crate::SUCCESS => Some((unsafe { bytes.assume_init() }, bump_seed)),
            _ => None,
        }
    }

    #[cfg(not(target_os = "solana"))]
    {
        core::hint::black_box((seeds, program_id));
        None
    }
}

/// Create a valid [program derived address][pda] without searching for a bump seed.
///
/// [pda]: https://solana.com/docs/core/cpi#program-derived-addresses
///
/// Because this function does not create a bump seed, it may unpredictably
/// return an error for any given set of seeds and is not generally suitable
/// for creating program derived addresses.
///
/// However, it can be used for efficiently verifying that a set of seeds plus
/// bump seed generated by [`find_program_address`] derives a particular
/// address as expected. See the example for details.
///
/// See the documentation for [`find_program_address`] for a full description
/// of program derived addresses and bump seeds.
///
/// Note that this function does *not* validate whether the given `seeds` are within
/// the valid length or not. It will return an error in case of invalid seeds length,
/// incurring the cost of the syscall.
///
/// [`find_program_address`]: #find_program_address
#[inline]
pub fn create_program_address(
    seeds: &[&[u8]],
    program_id: &Pubkey,
) -> Result<Pubkey, ProgramError> {
    // Call via a system call to perform the calculation
    #[cfg(target_os = "solana")]
    {
        let mut bytes = core::mem::MaybeUninit::<[u8; PUBKEY_BYTES]>::uninit();

        let result = unsafe {
            crate::syscalls::sol_create_program_address(
                seeds as *const _ as *const u8,
                seeds.len() as u64,
                program_id as *const _ as *const u8,
                bytes.as_mut_ptr() as *mut u8,
            )
        };

        match result {
            // SAFETY: The syscall has initialized the bytes.
            crate::SUCCESS => Ok(unsafe { bytes.assume_init() }),
            _ => Err(result.into()),
        }
    }

    #[cfg(not(target_os = "solana"))]
    {
        core::hint::black_box((seeds, program_id));
        panic!("create_program_address is only available on target `solana`")
    }
}

/// Create a valid [program derived address][pda] without searching for a bump seed.
///
/// [pda]: https://solana.com/docs/core/cpi#program-derived-addresses
///
/// Because this function does not create a bump seed, it may unpredictably
/// return an error for any given set of seeds and is not generally suitable
/// for creating program derived addresses.
///
/// However, it can be used for efficiently verifying that a set of seeds plus
/// bump seed generated by [`find_program_address`] derives a particular
/// address as expected. See the example for details.
///
/// See the documentation for [`find_program_address`] for a full description
/// of program derived addresses and bump seeds.
///
/// Note that this function validates whether the given `seeds` are within the valid
/// length or not, returning an error without incurring the cost of the syscall.
///
/// [`find_program_address`]: #find_program_address
#[inline(always)]
pub fn checked_create_program_address(
    seeds: &[&[u8]],
    program_id: &Pubkey,
) -> Result<Pubkey, ProgramError> {
    if seeds.len() > MAX_SEEDS {
        return Err(ProgramError::MaxSeedLengthExceeded);
    }
    if seeds.iter().any(|seed| seed.len() > MAX_SEED_LEN) {
        return Err(ProgramError::MaxSeedLengthExceeded);
    }

    create_program_address(seeds, program_id)
}

/// Derive a Pubkey from another Pubkey, seed, and a program id.
#[inline]
pub fn create_with_seed(
    base: &Pubkey,
    seed: &[u8],
    program_id: &Pubkey,
) -> Result<Pubkey, ProgramError> {
    if seed.len() > MAX_SEED_LEN {
        return Err(ProgramError::MaxSeedLengthExceeded);
    }

    if program_id.ends_with(PDA_MARKER) {
        return Err(ProgramError::IllegalOwner);
    }

    #[cfg(target_os = "solana")]
    {
        let mut bytes = core::mem::MaybeUninit::<[u8; PUBKEY_BYTES]>::uninit();

        let vals = &[base, seed, program_id];

        unsafe {
            crate::syscalls::sol_sha256(
                vals as *const _ as *const u8,
                vals.len() as u64,
                bytes.as_mut_ptr() as *mut _,
            );
        }

        // SAFETY: The syscall has initialized the bytes.
        Ok(unsafe { bytes.assume_init() })
    }

    #[cfg(not(target_os = "solana"))]
    {
        core::hint::black_box((base, seed, program_id));
        panic!("create_with_seed is only available on target `solana`")
    }
}

#[cfg(test)]
mod tests {
    use crate::pubkey::{pubkey_eq, Pubkey, PUBKEY_BYTES};

    #[test]
    fn test_pubkey_eq_matches_default_eq() {
        for i in 0..u8::MAX {
            let p1: Pubkey = [i; PUBKEY_BYTES];
            let p2: Pubkey = [i; PUBKEY_BYTES];

            assert_eq!(pubkey_eq(&p1, &p2), p1 == p2);
        }

        for i in 0..u8::MAX {
            let p1: Pubkey = [i; PUBKEY_BYTES];
            let p2: Pubkey = [u8::MAX - i; PUBKEY_BYTES];

            assert_eq!(!pubkey_eq(&p1, &p2), p1 != p2);
        }
    }
}
