//! # Pinocchio
//!
//! Pinocchio is a zero-dependency library to create Solana programs in Rust.
//! It takes advantage of the way SVM loaders serialize the program input parameters
//! into a byte array that is then passed to the program's entrypoint to define
//! zero-copy types to read the input - these types are defined in an efficient way
//! taking into consideration that they will be used in on-chain programs.
//!
//! It is intended to be used by on-chain programs only; for off-chain programs,
//! use instead the [`solana-sdk`] crate.
//!
//! [`solana-sdk`]: https://docs.rs/solana-sdk/latest/solana_sdk/
//!
//! ## Defining the program entrypoint
//!
//! A Solana program needs to define an entrypoint, which will be called by the
//! runtime to begin the program execution. The `entrypoint!` macro emits the common
//! boilerplate to set up the program entrypoint. The macro will also set up [global
//! allocator](https://doc.rust-lang.org/stable/core/alloc/trait.GlobalAlloc.html)
//! and [panic handler](https://doc.rust-lang.org/nomicon/panic-handler.html) using
//! the [`default_allocator!`] and [`default_panic_handler!`] macros.
//!
//! The [`entrypoint!`] is a convenience macro that invokes three other macros to set
//! all symbols required for a program execution:
//!
//! * [`program_entrypoint!`]: declares the program entrypoint
//! * [`default_allocator!`]: declares the default (bump) global allocator
//! * [`default_panic_handler!`]: declares the default panic handler
//!
//! To use the `entrypoint!` macro, use the following in your entrypoint definition:
//! ```ignore
//! use pinocchio::{
//!   account_info::AccountInfo,
//!   entrypoint,
//!   msg,
//!   ProgramResult,
//!   pubkey::Pubkey
//! };
//!
//! entrypoint!(process_instruction);
//!
//! pub fn process_instruction(
//!   program_id: &Pubkey,
//!   accounts: &[AccountInfo],
//!   instruction_data: &[u8],
//! ) -> ProgramResult {
//!   msg!("Hello from my program!");
//!   Ok(())
//! }
//! ```
//!
//! The information from the input is parsed into their own entities:
//!
//! * `program_id`: the `ID` of the program being called
//! * `accounts`: the accounts received
//! * `instruction_data`: data for the instruction
//!
//! Pinocchio also offers variations of the program entrypoint
//! ([`lazy_program_entrypoint`]) and global allocator ([`no_allocator`]). In
//! order to use these, the program needs to specify the program entrypoint,
//! global allocator and panic handler individually. The [`entrypoint!`] macro
//! is equivalent to writing:
//! ```ignore
//! program_entrypoint!(process_instruction);
//! default_allocator!();
//! default_panic_handler!();
//! ```
//! Any of these macros can be replaced by other implementations and Pinocchio
//! offers a couple of variants for this.
//!
//! ### [`lazy_program_entrypoint!`]
//!
//! The [`entrypoint!`] macro looks similar to the "standard" one found in
//! [`solana-program`](https://docs.rs/solana-program-entrypoint/latest/solana_program_entrypoint/macro.entrypoint.html).
//! It parses the whole input and provides the `program_id`, `accounts` and
//! `instruction_data` separately. This consumes compute units before the program
//! begins its execution. In some cases, it is beneficial for a program to have
//! more control when the input parsing is happening, even whether the parsing
//! is needed or not - this is the purpose of the [`lazy_program_entrypoint!`]
//! macro. This macro only wraps the program input and provides methods to parse
//! the input on-demand.
//!
//! The [`lazy_program_entrypoint`] is suitable for programs that have a single
//! or very few instructions, since it requires the program to handle the parsing,
//! which can become complex as the number of instructions increases. For *larger*
//! programs, the [`program_entrypoint!`] will likely be easier and more efficient
//! to use.
//!
//! To use the [`lazy_program_entrypoint!`] macro, use the following in your
//! entrypoint definition:
//! ```ignore
//! use pinocchio::{
//!   default_allocator,
//!   default_panic_handler,
//!   entrypoint::InstructionContext,
//!   lazy_program_entrypoint,
//!   msg,
//!   ProgramResult
//! };
//!
//! lazy_program_entrypoint!(process_instruction);
//! default_allocator!();
//! default_panic_handler!();
//!
//! pub fn process_instruction(
//!   mut context: InstructionContext
//! ) -> ProgramResult {
//!     msg!("Hello from my lazy program!");
//!     Ok(())
//! }
//! ```
//!
//! The [`InstructionContext`](entrypoint::InstructionContext) provides on-demand
//! access to the information of the input:
//!
//! * [`remaining()`](entrypoint::InstructionContext::remaining): number of available
//!   accounts to parse; this number is decremented as the program parses accounts.
//! * [`next_account()`](entrypoint::InstructionContext::next_account): parses the
//!   next available account (can be used as many times as accounts available).
//! * [`instruction_data()`](entrypoint::InstructionContext::instruction_data): parses
//!   the instruction data.
//! * [`program_id()`](entrypoint::InstructionContext::program_id): parses the
//!   program id.
//!
//!
//! 💡 The [`lazy_program_entrypoint!`] does not set up a global allocator nor a panic
//! handler. A program should explicitly use one of the provided macros to set them
//! up or include its own implementation.
//!
//! ### [`no_allocator!`]
//!
//! When writing programs, it can be useful to make sure the program does not attempt
//! to make any allocations. For this cases, Pinocchio includes a [`no_allocator!`]
//! macro that set a global allocator just panics at any attempt to allocate memory.
//!
//! To use the [`no_allocator!`] macro, use the following in your entrypoint definition:
//! ```ignore
//! use pinocchio::{
//!   account_info::AccountInfo,
//!   default_panic_handler,
//!   msg,
//!   no_allocator,
//!   program_entrypoint,
//!   ProgramResult,
//!   pubkey::Pubkey
//! };
//!
//! program_entrypoint!(process_instruction);
//! default_panic_handler!();
//! no_allocator!();
//!
//! pub fn process_instruction(
//!   program_id: &Pubkey,
//!   accounts: &[AccountInfo],
//!   instruction_data: &[u8],
//! ) -> ProgramResult {
//!   msg!("Hello from `no_std` program!");
//!   Ok(())
//! }
//! ```
//!
//!
//! 💡 The [`no_allocator!`] macro can also be used in combination with the
//! [`lazy_program_entrypoint!`].
//!
//! ## `std` crate feature
//!
//! By default, Pinocchio is a `no_std` crate. This means that it does not use any
//! code from the standard (`std`) library. While this does not affect how Pinocchio
//! is used, there is a one particular apparent difference. In a `no_std` environment,
//! the [`msg!`] macro does not provide any formatting options since the `format!` macro
//! requires the `std` library. In order to use [`msg!`] with formatting, the `std`
//! feature should be enable when adding Pinocchio as a dependency:
//! ```ignore
//! pinocchio = { version = "0.7.0", features = ["std"] }
//! ```
//!
//! Instead of enabling the `std` feature to be able to format log messages with [`msg!`],
//! it is recommended to use the [`pinocchio-log`](https://crates.io/crates/pinocchio-log)
//! crate. This crate provides a lightweight `log!` macro with better compute units
//! consumption than the standard `format!` macro without requiring the `std` library.
//!
//! ## Advanced entrypoint configuration
//!
//! The symbols emitted by the entrypoint macros - program entrypoint, global
//! allocator and default panic handler - can only be defined once globally. If
//! the program crate is also intended to be used as a library, it is common practice
//! to define a Cargo [feature](https://doc.rust-lang.org/cargo/reference/features.html)
//! in your program crate to conditionally enable the module that includes the [`entrypoint!`]
//! macro invocation. The convention is to name the feature `bpf-entrypoint`.
//!
//! ```ignore
//! #[cfg(feature = "bpf-entrypoint")]
//! mod entrypoint {
//!   use pinocchio::{
//!     account_info::AccountInfo,
//!     entrypoint,
//!     msg,
//!     ProgramResult,
//!     pubkey::Pubkey
//!   };
//!
//!   entrypoint!(process_instruction);
//!
//!   pub fn process_instruction(
//!     program_id: &Pubkey,
//!     accounts: &[AccountInfo],
//!     instruction_data: &[u8],
//!   ) -> ProgramResult {
//!     msg!("Hello from my program!");
//!     Ok(())
//!   }
//! }
//! ```
//!
//! When building the program binary, you must enable the `bpf-entrypoint` feature:
//! ```ignore
//! cargo build-sbf --features bpf-entrypoint
//! ```
#![warn(missing_copy_implementations, missing_debug_implementations)]
#![no_std]

#[cfg(feature = "std")]
extern crate std;

pub mod account_info;
pub mod cpi;
pub mod entrypoint;
pub mod instruction;
pub mod log;
pub mod memory;
#[deprecated(since = "0.8.0", note = "Use the `cpi` module instead")]
pub mod program {
    pub use crate::cpi::*;
}
pub mod program_error;
pub mod pubkey;
pub mod syscalls;
pub mod sysvars;

#[deprecated(since = "0.7.0", note = "Use the `entrypoint` module instead")]
pub use entrypoint::lazy as lazy_entrypoint;

/// Maximum number of accounts that a transaction may process.
///
/// This value is set to `u8::MAX - 1`, which is the theoretical maximum
/// number of accounts that a transaction can process given that indices
/// of accounts are represented by an `u8` value and the last
/// value (`255`) is reserved to indicate non-duplicated accounts.
///
/// The `MAX_TX_ACCOUNTS` is used to statically initialize the array of
/// `AccountInfo`s when parsing accounts in an instruction.
pub const MAX_TX_ACCOUNTS: usize = (u8::MAX - 1) as usize;

/// `assert_eq(core::mem::align_of::<u128>(), 8)` is true for BPF but not
/// for some host machines.
const BPF_ALIGN_OF_U128: usize = 8;

/// Return value for a successful program execution.
pub const SUCCESS: u64 = 0;

/// The result of a program execution.
pub type ProgramResult = Result<(), program_error::ProgramError>;

/// Module with functions to provide hints to the compiler about how code
/// should be optimized.
pub mod hint {
    /// A "dummy" function with a hint to the compiler that it is unlikely to be
    /// called.
    ///
    /// This function is used as a hint to the compiler to optimize other code paths
    /// instead of the one where the function is used.
    #[cold]
    pub const fn cold_path() {}

    /// Return the given `bool` value with a hint to the compiler that `true` is the
    /// likely case.
    #[inline(always)]
    pub const fn likely(b: bool) -> bool {
        if b {
            true
        } else {
            cold_path();
            false
        }
    }

    /// Return a given `bool` value with a hint to the compiler that `false` is the
    /// likely case.
    #[inline(always)]
    pub const fn unlikely(b: bool) -> bool {
        if b {
            cold_path();
            true
        } else {
            false
        }
    }
}
