/// Syscall definitions used by `solana_msg`.
pub use solana_define_syscall::definitions::{
    sol_log_, sol_log_64_, sol_log_compute_units_, sol_log_data,
};
