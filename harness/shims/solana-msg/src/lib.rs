/// Print a message to the log.
///
/// Supports simple strings as well as Rust [format strings][fs]. When passed a
/// single expression it will be passed directly to [`sol_log`]. The expression
/// must have type `&str`, and is typically used for logging static strings.
/// When passed something other than an expression, particularly
/// a sequence of expressions, the tokens will be passed through the
/// [`format!`] macro before being logged with `sol_log`.
///
/// [fs]: https://doc.rust-lang.org/std/fmt/
/// [`format!`]: https://doc.rust-lang.org/std/fmt/fn.format.html
///
/// Note that Rust's formatting machinery is relatively CPU-intensive
/// for constrained environments like the Solana VM.
///
/// # Examples
///
/// ```
/// use solana_msg::msg;
///
/// // The fast form
/// msg!("verifying multisig");
///
/// // With formatting
/// let err = "not enough signers";
/// msg!("multisig failed: {}", err);
/// ```
#[macro_export]
macro_rules! msg {
    ($msg:expr) => {
        $crate::sol_log($msg)
    };
    ($($arg:tt)*) => ($crate::sol_log(&format!($($arg)*)));
}

#[cfg(target_os = "solana")]
pub mod syscalls;

/// Print a string to the log.
#[inline]
pub fn sol_log(message: &str) {
    #[cfg(target_os = "solana")]
    unsafe {
        syscalls::sol_log_(message.as_ptr(), message.len() as u64);
    }

    #[cfg(not(target_os = "solana"))]
    {
        // VERIF SHIM: collect logs in the native runtime instead of printing.
        extern "Rust" {
            fn verif_sol_log(message: &str);
        }
        unsafe { verif_sol_log(message) }
    }
}
