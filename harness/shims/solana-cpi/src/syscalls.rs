/// Syscall definitions used by `solana_cpi`.
pub use solana_define_syscall::definitions::{
    sol_invoke_signed_c, sol_invoke_signed_rust, sol_set_return_data,
};
use {solana_define_syscall::define_syscall, solana_pubkey::Pubkey};

define_syscall!(fn sol_get_return_data(data: *mut u8, length: u64, program_id: *mut Pubkey) -> u64);
