//! Cross-program invocation.
//!
//! Solana programs may call other programs, termed [_cross-program
//! invocations_][cpi] (CPI), with the [`invoke`] and [`invoke_signed`]
//! functions.
//!
//! This crate does not support overwriting syscall stubs for offchain code.
//! If you want to overwrite syscall stubs, use the wrapper functions in
//! [`solana_program::program`].
//!
//! [`invoke`]: invoke
//! [`invoke_signed`]: invoke_signed
//! [cpi]: https://solana.com/docs/core/cpi
//! [`solana_program::program`]: https://docs.rs/solana-program/latest/solana_program/program/

use {
    solana_account_info::AccountInfo, solana_instruction::Instruction,
    solana_program_error::ProgramResult, solana_pubkey::Pubkey,
};
#[cfg(target_os = "solana")]
pub mod syscalls;

/// Invoke a cross-program instruction.
///
/// Invoking one program from another program requires an [`Instruction`]
/// containing the program ID of the other program, instruction data that
/// will be understood by the other program, and a list of [`AccountInfo`]s
/// corresponding to all of the accounts accessed by the other program. Because
/// the only way for a program to acquire `AccountInfo` values is by receiving
/// them from the runtime at the [program entrypoint][entrypoint!], any account
/// required by the callee program must transitively be required by the caller
/// program, and provided by _its_ caller. The same is true of the program ID of
/// the called program.
///
/// [entrypoint!]: https://docs.rs/solana-entrypoint/latest/solana_entrypoint/macro.entrypoint.html
///
/// The `Instruction` is usually built from within the calling program, but may
/// be deserialized from an external source.
///
/// This function will not return if the called program returns anything other
/// than success. If the callee returns an error or aborts then the entire
/// transaction will immediately fail. To return data as the result of a
/// cross-program invocation use the [`set_return_data`] / [`get_return_data`]
/// functions, or have the callee write to a dedicated account for that purpose.
///
/// A program may directly call itself recursively, but may not be indirectly
/// called recursively (reentered) by another program. Indirect reentrancy will
/// cause the transaction to immediately fail.
///
/// # Validation of shared data between programs
///
/// The `AccountInfo` structures passed to this function contain data that is
/// directly accessed by the runtime and is copied to and from the memory space
/// of the called program. Some of that data, the [`AccountInfo::lamports`] and
/// [`AccountInfo::data`] fields, may be mutated as a side-effect of the called
/// program, if that program has writable access to the given account.
///
/// These two fields are stored in [`RefCell`]s to enforce the aliasing
/// discipline for mutated values required by the Rust language. Prior to
/// invoking the runtime, this routine will test that each `RefCell` is
/// borrowable as required by the callee and return an error if not.
///
/// The CPU cost of these runtime checks can be avoided with the unsafe
/// [`invoke_unchecked`] function.
///
/// [`RefCell`]: std::cell::RefCell
///
/// # Errors
///
/// If the called program completes successfully and violates no runtime
/// invariants, then this function will return successfully. If the callee
/// completes and returns a [`ProgramError`], then the transaction will
/// immediately fail. Control will not return to the caller.
///
/// Various runtime invariants are checked before the callee is invoked and
/// before returning control to the caller. If any of these invariants are
/// violated then the transaction will immediately fail. A non-exhaustive list
/// of these invariants includes:
///
/// - The sum of lamports owned by all referenced accounts has not changed.
/// - A program has not debited lamports from an account it does not own.
/// - A program has not otherwise written to an account that it does not own.
/// - A program has not written to an account that is not writable.
/// - The size of account data has not exceeded applicable limits.
///
/// If the invoked program does not exist or is not executable then
/// the transaction will immediately fail.
///
/// If any of the `RefCell`s within the provided `AccountInfo`s cannot be
/// borrowed in accordance with the call's requirements, an error of
/// [`ProgramError::AccountBorrowFailed`] is returned.
///
/// [`ProgramError`]: https://docs.rs/solana-program-error/latest/solana_program_error/enum.ProgramError.html
/// [`ProgramError::AccountBorrowFailed`]: https://docs.rs/solana-program-error/latest/solana_program_error/enum.ProgramError.html#variant.AccountBorrowFailed
///
/// # Examples
///
/// A simple example of transferring lamports via CPI:
///
/// ```
/// use solana_cpi::invoke;
/// use solana_account_info::{next_account_info, AccountInfo};
/// use solana_program_entrypoint::entrypoint;
/// use solana_program_error::ProgramResult;
/// use solana_pubkey::Pubkey;
/// use solana_sdk_ids::system_program;
/// use solana_system_interface::instruction as system_instruction;
///
/// entrypoint!(process_instruction);
///
/// fn process_instruction(
///     program_id: &Pubkey,
///     accounts: &[AccountInfo],
///     instruction_data: &[u8],
/// ) -> ProgramResult {
///     let account_info_iter = &mut accounts.iter();
///
///     let payer = next_account_info(account_info_iter)?;
///     let recipient = next_account_info(account_info_iter)?;
///     // The system program is a required account to invoke a system
///     // instruction, even though we don't use it directly.
///     let system_program_account = next_account_info(account_info_iter)?;
///
///     assert!(payer.is_writable);
///     assert!(payer.is_signer);
///     assert!(recipient.is_writable);
///     assert!(system_program::check_id(system_program_account.key));
///
///     let lamports = 1000000;
///
///     invoke(
///         &system_instruction::transfer(payer.key, recipient.key, lamports),
///         &[payer.clone(), recipient.clone(), system_program_account.clone()],
///     )
/// }
/// ```
pub fn invoke(instruction: &Instruction, account_infos: &[AccountInfo]) -> ProgramResult {
    invoke_signed(instruction, account_infos, &[])
}

/// Invoke a cross-program instruction but don't enforce Rust's aliasing rules.
///
/// This function is like [`invoke`] except that it does not check that
/// [`RefCell`]s within [`AccountInfo`]s are properly borrowable as described in
/// the documentation for that function. Those checks consume CPU cycles that
/// this function avoids.
///
/// [`RefCell`]: std::cell::RefCell
///
/// # Safety
///
/// __This function is incorrectly missing an `unsafe` declaration.__
///
/// If any of the writable accounts passed to the callee contain data that is
/// borrowed within the calling program, and that data is written to by the
/// callee, then Rust's aliasing rules will be violated and cause undefined
/// behavior.
pub fn invoke_unchecked(instruction: &Instruction, account_infos: &[AccountInfo]) -> ProgramResult {
    invoke_signed_unchecked(instruction, account_infos, &[])
}

/// Invoke a cross-program instruction with program signatures.
///
/// This function is like [`invoke`] with the additional ability to virtually
/// sign an invocation on behalf of one or more [program derived addresses][pda] (PDAs)
/// controlled by the calling program, allowing the callee to mutate them, or
/// otherwise confirm that a PDA program key has authorized the actions of the
/// callee.
///
/// There is no cryptographic signing involved &mdash; PDA signing is a runtime
/// construct that allows the calling program to control accounts as if it could
/// cryptographically sign for them; and the callee to treat the account as if it
/// was cryptographically signed.
///
/// The `signer_seeds` parameter is a slice of `u8` slices where the inner
/// slices represent the seeds plus the _bump seed_ used to derive (with
/// [`Pubkey::find_program_address`]) one of the PDAs within the `account_infos`
/// slice of `AccountInfo`s. During invocation, the runtime will re-derive the
/// PDA from the seeds and the calling program's ID, and if it matches one of
/// the accounts in `account_info`, will consider that account "signed".
///
/// [pda]: https://solana.com/docs/core/cpi#program-derived-addresses
/// [`Pubkey::find_program_address`]: https://docs.rs/solana-pubkey/latest/solana_pubkey/struct.Pubkey.html#method.find_program_address
///
/// See the documentation for [`Pubkey::find_program_address`] for more
/// about program derived addresses.
///
/// # Examples
///
/// A simple example of creating an account for a PDA:
///
/// ```
/// use solana_cpi::invoke_signed;
/// use solana_account_info::{next_account_info, AccountInfo};
/// use solana_program_entrypoint::entrypoint;
/// use solana_program_error::ProgramResult;
/// use solana_pubkey::Pubkey;
/// use solana_sdk_ids::system_program;
/// use solana_system_interface::instruction as system_instruction;
///
/// entrypoint!(process_instruction);
///
/// fn process_instruction(
///     program_id: &Pubkey,
///     accounts: &[AccountInfo],
///     instruction_data: &[u8],
/// ) -> ProgramResult {
///     let account_info_iter = &mut accounts.iter();
///     let payer = next_account_info(account_info_iter)?;
///     let vault_pda = next_account_info(account_info_iter)?;
///     let system_program = next_account_info(account_info_iter)?;
///
///     assert!(payer.is_writable);
///     assert!(payer.is_signer);
///     assert!(vault_pda.is_writable);
///     assert_eq!(vault_pda.owner, &system_program::ID);
///     assert!(system_program::check_id(system_program.key));
///
///     let vault_bump_seed = instruction_data[0];
///     let vault_seeds = &[b"vault", payer.key.as_ref(), &[vault_bump_seed]];
///     let expected_vault_pda = Pubkey::create_program_address(vault_seeds, program_id)?;
///
///     assert_eq!(vault_pda.key, &expected_vault_pda);
///
///     let lamports = 10000000;
///     let vault_size = 16;
///
///     invoke_signed(
///         &system_instruction::create_account(
///             &payer.key,
///             &vault_pda.key,
///             lamports,
///             vault_size,
///             &program_id,
///         ),
///         &[
///             payer.clone(),
///             vault_pda.clone(),
///         ],
///         &[
///             &[
///                 b"vault",
///                 payer.key.as_ref(),
///                 &[vault_bump_seed],
///             ],
///         ]
///     )?;
///     Ok(())
/// }
/// ```
pub fn invoke_signed(
    instruction: &Instruction,
    account_infos: &[AccountInfo],
    signers_seeds: &[&[&[u8]]],
) -> ProgramResult {
    // Check that the account RefCells are consistent with the request
    for account_meta in instruction.accounts.iter() {
        for account_info in account_infos.iter() {
            if account_meta.pubkey == *account_info.key {
                if account_meta.is_writable {
                    let _ = account_info.try_borrow_mut_lamports()?;
                    let _ = account_info.try_borrow_mut_data()?;
                } else {
                    let _ = account_info.try_borrow_lamports()?;
                    let _ = account_info.try_borrow_data()?;
                }
                break;
            }
        }
    }

    invoke_signed_unchecked(instruction, account_infos, signers_seeds)
}

/// Copied from `solana_program_entrypoint::SUCCESS`
/// to avoid a `solana_program_entrypoint` dependency
const _SUCCESS: u64 = 0;
#[cfg(test)]
static_assertions::const_assert_eq!(_SUCCESS, solana_program_entrypoint::SUCCESS);

/// Invoke a cross-program instruction with signatures but don't enforce Rust's
/// aliasing rules.
///
/// This function is like [`invoke_signed`] except that it does not check that
/// [`RefCell`]s within [`AccountInfo`]s are properly borrowable as described in
/// the documentation for that function. Those checks consume CPU cycles that
/// this function avoids.
///
/// [`RefCell`]: std::cell::RefCell
///
/// # Safety
///
/// __This function is incorrectly missing an `unsafe` declaration.__
///
/// If any of the writable accounts passed to the callee contain data that is
/// borrowed within the calling program, and that data is written to by the
/// callee, then Rust's aliasing rules will be violated and cause undefined
/// behavior.
#[allow(unused_variables)]
pub fn invoke_signed_unchecked(
    instruction: &Instruction,
    account_infos: &[AccountInfo],
    signers_seeds: &[&[&[u8]]],
) -> ProgramResult {
    #[cfg(target_os = "solana")]
    {
        let instruction =
            solana_stable_layout::stable_instruction::StableInstruction::from(instruction.clone());
        let result = unsafe {
            crate::syscalls::sol_invoke_signed_rust(
                &instruction as *const _ as *const u8,
                account_infos as *const _ as *const u8,
                account_infos.len() as u64,
                signers_seeds as *const _ as *const u8,
                signers_seeds.len() as u64,
            )
        };
        match result {
            _SUCCESS => Ok(()),
            _ => Err(result.into()),
        }
    }

    #[cfg(not(target_os = "solana"))]
    {
        // VERIF SHIM: off-chain there is no syscall; hand the CPI to the native runtime.
        extern "Rust" {
            fn verif_sol_invoke_signed(
                instruction: &Instruction,
                account_infos: &[AccountInfo],
                signers_seeds: &[&[&[u8]]],
            ) -> ProgramResult;
        }
        unsafe { verif_sol_invoke_signed(instruction, account_infos, signers_seeds) }
    }
}

/// Maximum size that can be set using [`set_return_data`].
pub const MAX_RETURN_DATA: usize = 1024;

/// Set the running program's return data.
///
/// Return data is a dedicated per-transaction buffer for data passed
/// from cross-program invoked programs back to their caller.
///
/// The maximum size of return data is [`MAX_RETURN_DATA`]. Return data is
/// retrieved by the caller with [`get_return_data`].
#[allow(unused_variables)]
pub fn set_return_data(data: &[u8]) {
    #[cfg(target_os = "solana")]
    unsafe {
        crate::syscalls::sol_set_return_data(data.as_ptr(), data.len() as u64)
    };
    #[cfg(not(target_os = "solana"))]
    {
        // VERIF SHIM
        extern "Rust" {
            fn verif_sol_set_return_data(data: &[u8]);
        }
        unsafe { verif_sol_set_return_data(data) }
    }
}

/// Get the return data from an invoked program.
///
/// For every transaction there is a single buffer with maximum length
/// [`MAX_RETURN_DATA`], paired with a [`Pubkey`] representing the program ID of
/// the program that most recently set the return data. Thus the return data is
/// a global resource and care must be taken to ensure that it represents what
/// is expected: called programs are free to set or not set the return data; and
/// the return data may represent values set by programs multiple calls down the
/// call stack, depending on the circumstances of transaction execution.
///
/// Return data is set by the callee with [`set_return_data`].
///
/// Return data is cleared before every CPI invocation &mdash; a program that
/// has invoked no other programs can expect the return data to be `None`; if no
/// return data was set by the previous CPI invocation, then this function
/// returns `None`.
///
/// Return data is not cleared after returning from CPI invocations &mdash; a
/// program that has called another program may retrieve return data that was
/// not set by the called program, but instead set by a program further down the
/// call stack; or, if a program calls itself recursively, it is possible that
/// the return data was not set by the immediate call to that program, but by a
/// subsequent recursive call to that program. Likewise, an external RPC caller
/// may see return data that was not set by the program it is directly calling,
/// but by a program that program called.
///
/// For more about return data see the [documentation for the return data proposal][rdp].
///
/// [rdp]: https://docs.solanalabs.com/proposals/return-data
pub fn get_return_data() -> Option<(Pubkey, Vec<u8>)> {
    #[cfg(target_os = "solana")]
    {
        use std::cmp::min;

        let mut buf = [0u8; MAX_RETURN_DATA];
        let mut program_id = Pubkey::default();

        let size = unsafe {
            crate::syscalls::sol_get_return_data(
                buf.as_mut_ptr(),
                buf.len() as u64,
                &mut program_id,
            )
        };

        if size == 0 {
            None
        } else {
            let size = min(size as usize, MAX_RETURN_DATA);
            Some((program_id, buf[..size as usize].to_vec()))
        }
    }

    #[cfg(not(target_os = "solana"))]
    {
        // VERIF SHIM
        extern "Rust" {
            fn verif_sol_get_return_data() -> Option<(Pubkey, Vec<u8>)>;
        }
        unsafe { verif_sol_get_return_data() }
    }
}
