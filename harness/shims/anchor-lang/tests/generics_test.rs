#![allow(dead_code)]

use anchor_lang::prelude::borsh::maybestd::io::Write;
use anchor_lang::prelude::*;
use borsh::{BorshDeserialize, BorshSerialize};
use solana_pubkey::Pubkey;

// Needed to declare accounts.
declare_id!("Fg6PaFpoGXkYsidMpWTK6W2BeZ7FEfcYkg476zPFsLnS");

#[derive(Accounts)]
pub struct CustomLifetime<'a> {
    pub non_generic: UncheckedAccount<'a>,
}

#[derive(Accounts)]
pub struct GenericsTest<'info, T, U, const N: usize>
where
    T: AccountSerialize + AccountDeserialize + Owner + Clone,
    U: BorshSerialize + BorshDeserialize + Default + Clone,
{
    pub non_generic: AccountInfo<'info>,
    pub generic: Account<'info, T>,

    pub const_generic: AccountLoader<'info, FooAccount<N>>,
    pub const_generic_loader: AccountLoader<'info, FooAccount<N>>,
    pub associated: Account<'info, Associated<U>>,
}

#[account(zero_copy(unsafe))]
pub struct FooAccount<const N: usize> {
    pub data: WrappedU8Array<N>,
}

#[account]
#[derive(Default)]
pub struct Associated<T>
where
    T: BorshDeserialize + BorshSerialize + Default,
{
    pub data: T,
}

#[derive(Copy, Clone)]
pub struct WrappedU8Array<const N: usize>(u8);
impl<const N: usize> BorshSerialize for WrappedU8Array<N> {
    fn serialize<W: Write>(&self, _writer: &mut W) -> borsh::maybestd::io::Result<()> {
        todo!()
    }
}
impl<const N: usize> BorshDeserialize for WrappedU8Array<N> {
    fn deserialize(_buf: &mut &[u8]) -> borsh::maybestd::io::Result<Self> {
        todo!()
    }

    fn deserialize_reader<R: std::io::Read>(_reader: &mut R) -> std::io::Result<Self> {
        todo!()
    }
}
impl<const N: usize> Owner for WrappedU8Array<N> {
    fn owner() -> Pubkey {
        crate::ID
    }
}
