use core::str::FromStr;

use anchor_lang::solana_program::pubkey::Pubkey;

mod id {
    anchor_lang::declare_id!("Fg6PaFpoGXkYsidMpWTK6W2BeZ7FEfcYkg476zPFsLnS");
}

#[test]
fn test_declare_id() {
    let good = Pubkey::from_str("Fg6PaFpoGXkYsidMpWTK6W2BeZ7FEfcYkg476zPFsLnS").unwrap();
    let bad = Pubkey::from_str("A7yUYJNEVYRLE4QWsnc9rE9JRsm7DfqEmLscQVwkffAk").unwrap();
    assert_eq!(good, id::ID);
    assert_eq!(good, id::id());
    assert!(id::check_id(&good));
    assert!(!id::check_id(&bad));
}

mod pk {
    pub(super) const PUBKEY: anchor_lang::solana_program::pubkey::Pubkey =
        anchor_lang::pubkey!("A7yUYJNEVYRLE4QWsnc9rE9JRsm7DfqEmLscQVwkffAk");
}

#[test]
fn test_pubkey() {
    let want = Pubkey::from_str("A7yUYJNEVYRLE4QWsnc9rE9JRsm7DfqEmLscQVwkffAk");
    assert_eq!(want.unwrap(), pk::PUBKEY);
}
