use anchor_lang::{AnchorDeserialize, AnchorSerialize, Discriminator, InstructionData};

#[test]
fn test_instruction_data() {
    // Define some test type and implement ser/de, discriminator, and ix data
    #[derive(Default, AnchorSerialize, AnchorDeserialize, PartialEq, Eq)]
    struct MyType {
        foo: [u8; 8],
        bar: String,
    }
    impl Discriminator for MyType {
        const DISCRIMINATOR: &'static [u8] = &[1, 2, 3, 4, 5, 6, 7, 8];
    }
    impl InstructionData for MyType {}

    // Initialize some instance of the type
    let instance = MyType {
        foo: [0, 2, 4, 6, 8, 10, 12, 14],
        bar: "sharding sucks".into(),
    };

    // Serialize using both methods
    let data = instance.data();
    let mut write = vec![];
    instance.write_to(&mut write);

    // Check that one is correct and that they are equal (implies other is correct)
    let correct_disc = &data[0..8] == MyType::DISCRIMINATOR;
    let correct_data = MyType::deserialize(&mut &data[8..]).is_ok_and(|result| result == instance);
    let correct_serialization = correct_disc & correct_data;
    assert!(correct_serialization, "serialization was not correct");
    assert_eq!(
        &data, &write,
        "the different methods produced different serialized representations"
    );
}
