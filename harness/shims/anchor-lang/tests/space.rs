use anchor_lang::prelude::*;

// Needed to declare accounts.
declare_id!("Fg6PaFpoGXkYsidMpWTK6W2BeZ7FEfcYkg476zPFsLnS");

mod inside_mod {
    use super::*;

    #[derive(InitSpace)]
    pub struct Data {
        pub data: u64,
    }
}

#[derive(InitSpace)]
pub enum TestBasicEnum {
    Basic1,
    Basic2 {
        test_u8: u8,
    },
    Basic3 {
        test_u16: u16,
    },
    Basic4 {
        #[max_len(10)]
        test_vec: Vec<u8>,
    },
}

#[account]
#[derive(InitSpace)]
pub struct TestEmptyAccount {}

#[account]
#[derive(InitSpace)]
pub struct TestBasicVarAccount {
    pub test_u8: u8,
    pub test_u16: u16,
    pub test_u32: u32,
    pub test_u64: u64,
    pub test_u128: u128,
}

#[account]
#[derive(InitSpace)]
pub struct TestComplexVarAccount {
    pub test_key: Pubkey,
    #[max_len(10)]
    pub test_vec: Vec<u8>,
    #[max_len(10)]
    pub test_string: String,
    pub test_option: Option<u16>,
}

#[derive(InitSpace)]
pub struct TestNonAccountStruct {
    pub test_bool: bool,
}

#[account(zero_copy)]
#[derive(InitSpace)]
pub struct TestZeroCopyStruct {
    pub test_array: [u8; 8],
    pub test_u32: u32,
}

#[derive(InitSpace)]
pub struct ChildStruct {
    #[max_len(10)]
    pub test_string: String,
}

#[derive(InitSpace)]
pub struct TestNestedStruct {
    pub test_struct: ChildStruct,
    pub test_enum: TestBasicEnum,
}

#[derive(InitSpace)]
pub struct TestMatrixStruct {
    #[max_len(2, 4)]
    pub test_matrix: Vec<Vec<u8>>,
}

#[derive(InitSpace)]
pub struct TestFullPath {
    pub test_option_path: Option<inside_mod::Data>,
    pub test_path: inside_mod::Data,
}

const MAX_LEN: u8 = 10;

#[derive(InitSpace)]
pub struct TestConst {
    #[max_len(MAX_LEN)]
    pub test_string: String,
    pub test_array: [u8; MAX_LEN as usize],
}

#[derive(InitSpace)]
pub struct TestUnnamedStruct(
    pub u8,
    #[max_len(4)] pub Vec<u32>,
    #[max_len(10)] pub String,
    pub ChildStruct,
    pub TestBasicEnum,
);

#[derive(InitSpace)]
pub struct TestUnitStruct;

#[derive(InitSpace)]
#[allow(clippy::type_complexity)]
pub struct TestTupleStruct {
    pub test_tuple: (u8, u16, u32, u64, u128),
    pub mixed_tuple: (bool, f32, f64, i8, i16, i32, i64, i128),

    pub nested_tuple: (u8, (u16, u32, u64, u128)),
    pub deeply_nested: (u8, (u16, (u32, (u64, u128)))),
    pub complex_nested: (bool, (u8, u16), (u32, (u64, u128))),

    pub option_tuple: Option<(u8, u16, u32, u64, u128)>,
    pub tuple_with_option: (u8, Option<u16>, u32),
    pub nested_option_tuple: (u8, Option<(u16, u32)>, u64),

    pub pubkey_tuple: (Pubkey, u64),
    pub tuple_with_pubkeys: (Pubkey, Pubkey, u8),

    pub struct_tuple: (ChildStruct, u8),
    pub nested_struct_tuple: (u8, (ChildStruct, u16)),

    pub single_tuple: (u64,),
    pub single_nested: ((u8,),),

    pub empty_tuple: (),
    pub tuple_with_empty: (u8, (), u16),

    pub array_tuple: ([u8; 4], u16),
    pub tuple_array_nested: (u8, ([u16; 2], u32)),

    pub ultimate_complex: (u8, (bool, Option<(u16, u32)>, ChildStruct), Pubkey),
}

#[test]
fn test_empty_struct() {
    assert_eq!(TestEmptyAccount::INIT_SPACE, 0);
}

#[test]
fn test_basic_struct() {
    assert_eq!(TestBasicVarAccount::INIT_SPACE, 1 + 2 + 4 + 8 + 16);
}

#[test]
fn test_complex_struct() {
    assert_eq!(
        TestComplexVarAccount::INIT_SPACE,
        32 + 4 + 10 + (4 + 10) + 3
    )
}

#[test]
fn test_zero_copy_struct() {
    assert_eq!(TestZeroCopyStruct::INIT_SPACE, 8 + 4)
}

#[test]
fn test_basic_enum() {
    assert_eq!(TestBasicEnum::INIT_SPACE, 1 + 14);
}

#[test]
fn test_nested_struct() {
    assert_eq!(
        TestNestedStruct::INIT_SPACE,
        ChildStruct::INIT_SPACE + TestBasicEnum::INIT_SPACE
    )
}

#[test]
fn test_matrix_struct() {
    assert_eq!(TestMatrixStruct::INIT_SPACE, 4 + (2 * (4 + 4)))
}

#[test]
fn test_full_path() {
    assert_eq!(TestFullPath::INIT_SPACE, 8 + 9)
}

#[test]
fn test_const() {
    assert_eq!(TestConst::INIT_SPACE, (4 + 10) + 10)
}

#[test]
fn test_unnamed_struct() {
    assert_eq!(
        TestUnnamedStruct::INIT_SPACE,
        1 + 4 + 4 * 4 + 4 + 10 + ChildStruct::INIT_SPACE + TestBasicEnum::INIT_SPACE
    )
}

#[test]
fn test_unit_struct() {
    assert_eq!(TestUnitStruct::INIT_SPACE, 0)
}

#[test]
fn test_basic_tuple() {
    let basic_tuple_size = 1 + 2 + 4 + 8 + 16; // 31
    assert!(TestTupleStruct::INIT_SPACE >= basic_tuple_size);
}

#[test]
fn test_tuple_space_calculations() {
    let basic_tuple_size = 1 + 2 + 4 + 8 + 16; // 31

    let mixed_tuple_size = 1 + 4 + 8 + 1 + 2 + 4 + 8 + 16; // 44

    let nested_tuple_size = 1 + (2 + 4 + 8 + 16); // 31

    let option_tuple_size = 1 + (1 + 2 + 4 + 8 + 16); // 32

    let pubkey_tuple_size = 32 + 8; // 40

    let single_tuple_size = 8;

    let empty_tuple_size = 0;

    let minimum_expected_size = basic_tuple_size
        + mixed_tuple_size
        + nested_tuple_size
        + option_tuple_size
        + pubkey_tuple_size
        + single_tuple_size
        + empty_tuple_size;

    assert!(TestTupleStruct::INIT_SPACE >= minimum_expected_size);
}

#[test]
fn test_tuple_with_structs() {
    // Test that tuples containing other structs work correctly
    // struct_tuple: (ChildStruct, u8) = ChildStruct::INIT_SPACE + 1
    let expected_struct_tuple_contribution = ChildStruct::INIT_SPACE + 1;

    assert!(TestTupleStruct::INIT_SPACE >= expected_struct_tuple_contribution);
}

#[test]
fn test_nested_tuple_complexity() {
    // Test deeply_nested: (u8, (u16, (u32, (u64, u128))))
    // = 1 + (2 + (4 + (8 + 16))) = 1 + (2 + (4 + 24)) = 1 + (2 + 28) = 1 + 30 = 31
    let deeply_nested_size = 1 + 2 + 4 + 8 + 16; // 31

    // Test complex_nested: (bool, (u8, u16), (u32, (u64, u128)))
    // = 1 + (1 + 2) + (4 + (8 + 16)) = 1 + 3 + (4 + 24) = 1 + 3 + 28 = 32
    let complex_nested_size = 1 + (1 + 2) + (4 + (8 + 16)); // 32

    assert!(TestTupleStruct::INIT_SPACE >= deeply_nested_size + complex_nested_size);
}

#[test]
fn test_tuple_with_options() {
    // tuple_with_option: (u8, Option<u16>, u32) = 1 + (1 + 2) + 4 = 8
    let tuple_with_option_size = 1 + (1 + 2) + 4; // 8

    // nested_option_tuple: (u8, Option<(u16, u32)>, u64) = 1 + (1 + (2 + 4)) + 8 = 16
    let nested_option_tuple_size = 1 + (1 + (2 + 4)) + 8; // 16

    assert!(TestTupleStruct::INIT_SPACE >= tuple_with_option_size + nested_option_tuple_size);
}

#[test]
fn test_tuple_with_arrays() {
    // array_tuple: ([u8; 4], u16) = (4 * 1) + 2 = 6
    let array_tuple_size = 4 + 2; // 6

    // tuple_array_nested: (u8, ([u16; 2], u32)) = 1 + ((2 * 2) + 4) = 1 + (4 + 4) = 9
    let tuple_array_nested_size = 1 + ((2 * 2) + 4); // 9

    assert!(TestTupleStruct::INIT_SPACE >= array_tuple_size + tuple_array_nested_size);
}
