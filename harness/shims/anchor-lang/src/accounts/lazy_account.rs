//! Like [`Account`](crate::Account), but deserializes on-demand.

use std::{cell::RefCell, collections::BTreeSet, fmt, mem::MaybeUninit, rc::Rc};

use crate::{
    error::{Error, ErrorCode},
    AccountInfo, AccountMeta, AccountSerialize, Accounts, AccountsClose, Discriminator, Key, Owner,
    Pubkey, Result, ToAccountInfo, ToAccountInfos, ToAccountMetas,
};

/// Deserialize account data lazily (on-demand).
///
/// Anchor uses [`borsh`] deserialization by default, which can be expensive for both memory and
/// compute units usage.
///
/// With the regular [`Account`] type, all account data gets deserialized, even the fields not used
/// by your instruction. On contrast, [`LazyAccount`] allows you to deserialize individual fields,
/// saving both memory and compute units.
///
/// # Table of contents
///
/// - [When to use](#when-to-use)
/// - [Features](#features)
/// - [Example](#example)
/// - [Safety](#safety)
/// - [Performance](#performance)
///     - [Memory](#memory)
///     - [Compute units](#compute-units)
///
/// # When to use
///
/// This is currently an experimental account type, and therefore should only be used when you're
/// running into performance issues.
///
/// It's best to use [`LazyAccount`] when you only need to deserialize some of the fields,
/// especially if the account is read-only.
///
/// Replacing [`Account`] (including `Box`ed) with [`LazyAccount`] *can* improve both stack memory
/// and compute unit usage. However, this is not guaranteed. For example, if you need to
/// deserialize the account fully, using [`LazyAccount`] will have additional overhead and
/// therefore use slightly more compute units.
///
/// Currently, using the `mut` constraint eventually results in the whole account getting
/// deserialized, meaning it won't use fewer compute units compared to [`Account`]. This might get
/// optimized in the future.
///
/// # Features
///
/// - Can be used as a replacement for [`Account`].
/// - Checks the account owner and its discriminator.
/// - Does **not** check the type layout matches the defined layout.
/// - All account data can be deserialized with `load` and `load_mut` methods. These methods are
///   non-inlined, meaning that they're less likely to cause stack violation errors.
/// - Each individual field can be deserialized with the generated `load_<field>` and
///   `load_mut_<field>` methods.
///
/// # Example
///
/// ```
/// use anchor_lang::prelude::*;
///
/// declare_id!("LazyAccount11111111111111111111111111111111");
///
/// #[program]
/// pub mod lazy_account {
///     use super::*;
///
///     pub fn init(ctx: Context<Init>) -> Result<()> {
///         let mut my_account = ctx.accounts.my_account.load_mut()?;
///         my_account.authority = ctx.accounts.authority.key();
///
///         // Fill the dynamic data
///         for _ in 0..MAX_DATA_LEN {
///             my_account.dynamic.push(ctx.accounts.authority.key());
///         }
///
///         Ok(())
///     }
///
///     pub fn read(ctx: Context<Read>) -> Result<()> {
///         // Cached load due to the `has_one` constraint
///         let authority = ctx.accounts.my_account.load_authority()?;
///         msg!("Authority: {}", authority);
///         Ok(())
///     }
///
///     pub fn write(ctx: Context<Write>, new_authority: Pubkey) -> Result<()> {
///         // Cached load due to the `has_one` constraint
///         *ctx.accounts.my_account.load_mut_authority()? = new_authority;
///         Ok(())
///     }
/// }
///
/// #[derive(Accounts)]
/// pub struct Init<'info> {
///     #[account(mut)]
///     pub authority: Signer<'info>,
///     #[account(
///         init,
///         payer = authority,
///         space = MyAccount::DISCRIMINATOR.len() + MyAccount::INIT_SPACE
///     )]
///     pub my_account: LazyAccount<'info, MyAccount>,
///     pub system_program: Program<'info, System>,
/// }
///
/// #[derive(Accounts)]
/// pub struct Read<'info> {
///     pub authority: Signer<'info>,
///     #[account(has_one = authority)]
///     pub my_account: LazyAccount<'info, MyAccount>,
/// }
///
/// #[derive(Accounts)]
/// pub struct Write<'info> {
///     pub authority: Signer<'info>,
///     #[account(mut, has_one = authority)]
///     pub my_account: LazyAccount<'info, MyAccount>,
/// }
///
/// const MAX_DATA_LEN: usize = 256;
///
/// #[account]
/// #[derive(InitSpace)]
/// pub struct MyAccount {
///     pub authority: Pubkey,
///     pub fixed: [Pubkey; 8],
///     // Dynamic sized data also works, unlike `AccountLoader`
///     #[max_len(MAX_DATA_LEN)]
///     pub dynamic: Vec<Pubkey>,
/// }
/// ```
///
/// # Safety
///
/// The safety checks are done using the account's discriminator and the account's owner (similar
/// to [`Account`]). However, you should be extra careful when deserializing individual fields if,
/// for example, the account needs to be migrated. Make sure the previously serialized data always
/// matches the account's type identically.
///
/// # Performance
///
/// ## Memory
///
/// All fields (including the inner account type) are heap allocated. It only uses 24 bytes (3x
/// pointer size) of stack memory in total.
///
/// It's worth noting that where the account is being deserialized matters. For example, the main
/// place where Anchor programs are likely to hit stack violation errors is a generated function
/// called `try_accounts` (you might be familiar with it from the mangled build logs). This is
/// where the instruction is deserialized and constraints are run. Although having everything at the
/// same place is convenient for using constraints, this also makes it very easy to use the fixed
/// amount of stack space (4096 bytes) SVM allocates just by increasing the number of accounts the
/// instruction has. In SVM, each function has its own stack frame, meaning that it's possible to
/// deserialize more accounts simply by deserializing them inside other functions (rather than in
/// `try_accounts` which is already quite heavy).
///
/// The mentioned stack limitation can be solved using dynamic stack frames, see [SIMD-0166].
///
/// ## Compute units
///
/// Compute is harder to formulate, as it varies based on the inner account's type. That being said,
/// there are a few things you can do to optimize compute units usage when using [`LazyAccount`]:
///
/// - Order account fields from fixed-size data (e.g. `u8`, `Pubkey`) to dynamic data (e.g. `Vec`).
/// - Order account fields based on how frequently the field is accessed (starting with the most
///   frequent).
/// - Reduce or limit dynamic fields.
///
/// [`borsh`]: crate::prelude::borsh
/// [`Account`]: crate::prelude::Account
/// [SIMD-0166]: https://github.com/solana-foundation/solana-improvement-documents/pull/166
pub struct LazyAccount<'info, T>
where
    T: AccountSerialize + Discriminator + Owner + Clone,
{
    /// **INTERNAL FIELD DO NOT USE!**
    #[doc(hidden)]
    pub __info: &'info AccountInfo<'info>,
    /// **INTERNAL FIELD DO NOT USE!**
    #[doc(hidden)]
    pub __account: Rc<RefCell<MaybeUninit<T>>>,
    /// **INTERNAL FIELD DO NOT USE!**
    #[doc(hidden)]
    pub __fields: Rc<RefCell<Option<Vec<bool>>>>,
}

impl<T> fmt::Debug for LazyAccount<'_, T>
where
    T: AccountSerialize + Discriminator + Owner + Clone + fmt::Debug,
{
    fn fmt(&self, f: &mut fmt::Formatter) -> fmt::Result {
        f.debug_struct("LazyAccount")
            .field("info", &self.__info)
            .field("account", &self.__account)
            .field("fields", &self.__fields)
            .finish()
    }
}

impl<'info, T> LazyAccount<'info, T>
where
    T: AccountSerialize + Discriminator + Owner + Clone,
{
    fn new(info: &'info AccountInfo<'info>) -> LazyAccount<'info, T> {
        Self {
            __info: info,
            __account: Rc::new(RefCell::new(MaybeUninit::uninit())),
            __fields: Rc::new(RefCell::new(None)),
        }
    }

    /// Check both the owner and the discriminator.
    pub fn try_from(info: &'info AccountInfo<'info>) -> Result<LazyAccount<'info, T>> {
        let data = &info.try_borrow_data()?;
        let disc = T::DISCRIMINATOR;
        if data.len() < disc.len() {
            return Err(ErrorCode::AccountDiscriminatorNotFound.into());
        }

        let given_disc = &data[..disc.len()];
        if given_disc != disc {
            return Err(ErrorCode::AccountDiscriminatorMismatch.into());
        }

        Self::try_from_unchecked(info)
    }

    /// Check the owner but **not** the discriminator.
    pub fn try_from_unchecked(info: &'info AccountInfo<'info>) -> Result<LazyAccount<'info, T>> {
        if info.owner != &T::owner() {
            return Err(Error::from(ErrorCode::AccountOwnedByWrongProgram)
                .with_pubkeys((*info.owner, T::owner())));
        }

        Ok(LazyAccount::new(info))
    }

    /// Unload the deserialized account value by resetting the cache.
    ///
    /// This is useful when observing side-effects of CPIs.
    ///
    /// # Usage
    ///
    /// ```ignore
    /// // Load the initial value
    /// let initial_value = ctx.accounts.my_account.load_field()?;
    ///
    /// // Do CPI...
    ///
    /// // We still have a reference to the account from `initial_value`, drop it before `unload`
    /// drop(initial_value);
    ///
    /// // Load the updated value
    /// let updated_value = ctx.accounts.my_account.unload()?.load_field()?;
    /// ```
    ///
    /// # Panics
    ///
    /// If there is an existing reference (mutable or not) created by any of the `load` methods.
    pub fn unload(&self) -> Result<&Self> {
        // TODO: Should we drop the initialized fields manually?
        *self.__account.borrow_mut() = MaybeUninit::uninit();
        *self.__fields.borrow_mut() = None;
        Ok(self)
    }
}

impl<'info, B, T> Accounts<'info, B> for LazyAccount<'info, T>
where
    T: AccountSerialize + Discriminator + Owner + Clone,
{
    #[inline(never)]
    fn try_accounts(
        _program_id: &Pubkey,
        accounts: &mut &'info [AccountInfo<'info>],
        _ix_data: &[u8],
        _bumps: &mut B,
        _reallocs: &mut BTreeSet<Pubkey>,
    ) -> Result<Self> {
        if accounts.is_empty() {
            return Err(ErrorCode::AccountNotEnoughKeys.into());
        }
        let account = &accounts[0];
        *accounts = &accounts[1..];
        LazyAccount::try_from(account)
    }
}

impl<'info, T> AccountsClose<'info> for LazyAccount<'info, T>
where
    T: AccountSerialize + Discriminator + Owner + Clone,
{
    fn close(&self, sol_destination: AccountInfo<'info>) -> Result<()> {
        crate::common::close(self.to_account_info(), sol_destination)
    }
}

impl<T> ToAccountMetas for LazyAccount<'_, T>
where
    T: AccountSerialize + Discriminator + Owner + Clone,
{
    fn to_account_metas(&self, is_signer: Option<bool>) -> Vec<AccountMeta> {
        let is_signer = is_signer.unwrap_or(self.__info.is_signer);
        let meta = match self.__info.is_writable {
            false => AccountMeta::new_readonly(*self.__info.key, is_signer),
            true => AccountMeta::new(*self.__info.key, is_signer),
        };
        vec![meta]
    }
}

impl<'info, T> ToAccountInfos<'info> for LazyAccount<'info, T>
where
    T: AccountSerialize + Discriminator + Owner + Clone,
{
    fn to_account_infos(&self) -> Vec<AccountInfo<'info>> {
        vec![self.to_account_info()]
    }
}

impl<'info, T> AsRef<AccountInfo<'info>> for LazyAccount<'info, T>
where
    T: AccountSerialize + Discriminator + Owner + Clone,
{
    fn as_ref(&self) -> &AccountInfo<'info> {
        self.__info
    }
}

impl<T> Key for LazyAccount<'_, T>
where
    T: AccountSerialize + Discriminator + Owner + Clone,
{
    fn key(&self) -> Pubkey {
        *self.__info.key
    }
}
