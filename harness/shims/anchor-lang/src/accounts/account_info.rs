//! AccountInfo can be used as a type but
//! [Unchecked Account](crate::accounts::unchecked_account::UncheckedAccount)
//! should be used instead.

use crate::error::ErrorCode;
use crate::solana_program::account_info::AccountInfo;
use crate::solana_program::instruction::AccountMeta;
use crate::solana_program::pubkey::Pubkey;
use crate::{Accounts, AccountsExit, Key, Result, ToAccountInfos, ToAccountMetas};
use std::collections::BTreeSet;

impl<'info, B> Accounts<'info, B> for AccountInfo<'info> {
    fn try_accounts(
        _program_id: &Pubkey,
        accounts: &mut &[AccountInfo<'info>],
        _ix_data: &[u8],
        _bumps: &mut B,
        _reallocs: &mut BTreeSet<Pubkey>,
    ) -> Result<Self> {
        if accounts.is_empty() {
            return Err(ErrorCode::AccountNotEnoughKeys.into());
        }
        let account = &accounts[0];
        *accounts = &accounts[1..];
        Ok(account.clone())
    }
}

impl ToAccountMetas for AccountInfo<'_> {
    fn to_account_metas(&self, is_signer: Option<bool>) -> Vec<AccountMeta> {
        let is_signer = is_signer.unwrap_or(self.is_signer);
        let meta = match self.is_writable {
            false => AccountMeta::new_readonly(*self.key, is_signer),
            true => AccountMeta::new(*self.key, is_signer),
        };
        vec![meta]
    }
}

impl<'info> ToAccountInfos<'info> for AccountInfo<'info> {
    fn to_account_infos(&self) -> Vec<AccountInfo<'info>> {
        vec![self.clone()]
    }
}

impl<'info> AccountsExit<'info> for AccountInfo<'info> {}

impl Key for AccountInfo<'_> {
    fn key(&self) -> Pubkey {
        *self.key
    }
}
