//! Option<T> type for optional accounts.
//!
//! # Example
//! ```ignore
//! #[derive(Accounts)]
//! pub struct Example {
//!     pub my_acc: Option<Account<'info, MyData>>
//! }
//! ```

use std::collections::BTreeSet;

use crate::solana_program::account_info::AccountInfo;
use crate::solana_program::instruction::AccountMeta;
use crate::solana_program::pubkey::Pubkey;

use crate::{
    error::ErrorCode, Accounts, AccountsClose, AccountsExit, Result, ToAccountInfos, ToAccountMetas,
};

impl<'info, B, T: Accounts<'info, B>> Accounts<'info, B> for Option<T> {
    fn try_accounts(
        program_id: &Pubkey,
        accounts: &mut &'info [AccountInfo<'info>],
        ix_data: &[u8],
        bumps: &mut B,
        reallocs: &mut BTreeSet<Pubkey>,
    ) -> Result<Self> {
        if accounts.is_empty() {
            return if cfg!(feature = "allow-missing-optionals") {
                // We don't care if accounts is empty (when this feature is active),
                // so if that's the case we return None. This allows adding optional
                // accounts at the end of the Accounts struct without causing a breaking
                // change. This is safe and will error out if a required account is then
                // added after the optional account and the accounts aren't passed in.
                Ok(None)
            } else {
                // If the feature is inactive (it is off by default), then we error out
                // like every other Account.
                Err(ErrorCode::AccountNotEnoughKeys.into())
            };
        }

        // If there are enough accounts, it will check the program_id and return
        // None if it matches, popping the first account off the accounts vec.
        if accounts[0].key == program_id {
            *accounts = &accounts[1..];
            Ok(None)
        } else {
            // If the program_id doesn't equal the account key, we default to
            // the try_accounts implementation for the inner type and then wrap that with
            // Some. This should handle all possible valid cases.
            T::try_accounts(program_id, accounts, ix_data, bumps, reallocs).map(Some)
        }
    }
}

impl<'info, T: ToAccountInfos<'info>> ToAccountInfos<'info> for Option<T> {
    fn to_account_infos(&self) -> Vec<AccountInfo<'info>> {
        self.as_ref()
            .map_or_else(Vec::new, |account| account.to_account_infos())
    }
}

impl<T: ToAccountMetas> ToAccountMetas for Option<T> {
    fn to_account_metas(&self, is_signer: Option<bool>) -> Vec<AccountMeta> {
        self.as_ref()
            .expect("Cannot run `to_account_metas` on None")
            .to_account_metas(is_signer)
    }
}

impl<'info, T: AccountsClose<'info>> AccountsClose<'info> for Option<T> {
    fn close(&self, sol_destination: AccountInfo<'info>) -> Result<()> {
        self.as_ref()
            .map_or(Ok(()), |t| T::close(t, sol_destination))
    }
}

impl<'info, T: AccountsExit<'info>> AccountsExit<'info> for Option<T> {
    fn exit(&self, program_id: &Pubkey) -> Result<()> {
        self.as_ref().map_or(Ok(()), |t| t.exit(program_id))
    }
}
