//! Type validating that the account is owned by the system program

use crate::error::ErrorCode;
use crate::solana_program::system_program;
use crate::*;
use std::ops::Deref;

/// Type validating that the account is owned by the system program
///
/// Checks:
///
/// - `SystemAccount.info.owner == SystemProgram`
#[derive(Debug, Clone)]
pub struct SystemAccount<'info> {
    info: &'info AccountInfo<'info>,
}

impl<'info> SystemAccount<'info> {
    fn new(info: &'info AccountInfo<'info>) -> SystemAccount<'info> {
        Self { info }
    }

    #[inline(never)]
    pub fn try_from(info: &'info AccountInfo<'info>) -> Result<SystemAccount<'info>> {
        if *info.owner != system_program::ID {
            return Err(ErrorCode::AccountNotSystemOwned.into());
        }
        Ok(SystemAccount::new(info))
    }
}

impl<'info, B> Accounts<'info, B> for SystemAccount<'info> {
    #[inline(never)]
    fn try_accounts(
        _program_id: &Pubkey,
        accounts: &mut &'info [AccountInfo<'info>],
        _ix_data: &[u8],
        _bumps: &mut B,
        _reallocs: &mut BTreeSet<Pubkey>,
    ) -> Result<Self> {
        if accounts.is_empty() {
            return Err(ErrorCode::AccountNotEnoughKeys.into());
        }
        let account = &accounts[0];
        *accounts = &accounts[1..];
        SystemAccount::try_from(account)
    }
}

impl<'info> AccountsExit<'info> for SystemAccount<'info> {}

impl ToAccountMetas for SystemAccount<'_> {
    fn to_account_metas(&self, is_signer: Option<bool>) -> Vec<AccountMeta> {
        let is_signer = is_signer.unwrap_or(self.info.is_signer);
        let meta = match self.info.is_writable {
            false => AccountMeta::new_readonly(*self.info.key, is_signer),
            true => AccountMeta::new(*self.info.key, is_signer),
        };
        vec![meta]
    }
}

impl<'info> ToAccountInfos<'info> for SystemAccount<'info> {
    fn to_account_infos(&self) -> Vec<AccountInfo<'info>> {
        vec![self.info.clone()]
    }
}

impl<'info> AsRef<AccountInfo<'info>> for SystemAccount<'info> {
    fn as_ref(&self) -> &AccountInfo<'info> {
        self.info
    }
}

impl<'info> Deref for SystemAccount<'info> {
    type Target = AccountInfo<'info>;

    fn deref(&self) -> &Self::Target {
        self.info
    }
}

impl Key for SystemAccount<'_> {
    fn key(&self) -> Pubkey {
        *self.info.key
    }
}
