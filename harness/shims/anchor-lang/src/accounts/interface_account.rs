//! Account container that checks ownership on deserialization.

use crate::accounts::account::Account;
use crate::error::ErrorCode;
use crate::solana_program::account_info::AccountInfo;
use crate::solana_program::instruction::AccountMeta;
use crate::solana_program::pubkey::Pubkey;
use crate::solana_program::system_program;
use crate::{
    AccountDeserialize, AccountSerialize, Accounts, AccountsClose, AccountsExit, CheckOwner, Key,
    Owners, Result, ToAccountInfos, ToAccountMetas,
};
use std::collections::BTreeSet;
use std::fmt;
use std::ops::{Deref, DerefMut};

/// Wrapper around [`AccountInfo`](crate::solana_program::account_info::AccountInfo)
/// that verifies program ownership and deserializes underlying data into a Rust type.
///
/// # Table of Contents
/// - [Basic Functionality](#basic-functionality)
/// - [Using InterfaceAccount with non-anchor types](#using-interface-account-with-non-anchor-types)
/// - [Out of the box wrapper types](#out-of-the-box-wrapper-types)
///
/// # Basic Functionality
///
/// InterfaceAccount checks that `T::owners().contains(Account.info.owner)`.
/// This means that the data type that Accounts wraps around (`=T`) needs to
/// implement the [Owners trait](crate::Owners).
/// The `#[account]` attribute implements the Owners trait for
/// a struct using multiple `crate::ID`s declared by [`declareId`](crate::declare_id)
/// in the same program. It follows that InterfaceAccount can also be used
/// with a `T` that comes from a different program.
///
/// Checks:
///
/// - `T::owners().contains(InterfaceAccount.info.owner)`
/// - `!(InterfaceAccount.info.owner == SystemProgram && InterfaceAccount.info.lamports() == 0)`
///
/// # Example
/// ```ignore
/// use anchor_lang::prelude::*;
/// use other_program::Auth;
///
/// declare_id!("Fg6PaFpoGXkYsidMpWTK6W2BeZ7FEfcYkg476zPFsLnS");
///
/// #[program]
/// mod hello_anchor {
///     use super::*;
///     pub fn set_data(ctx: Context<SetData>, data: u64) -> Result<()> {
///         if (*ctx.accounts.auth_account).authorized {
///             (*ctx.accounts.my_account).data = data;
///         }
///         Ok(())
///     }
/// }
///
/// #[account]
/// #[derive(Default)]
/// pub struct MyData {
///     pub data: u64
/// }
///
/// #[derive(Accounts)]
/// pub struct SetData<'info> {
///     #[account(mut)]
///     pub my_account: InterfaceAccount<'info, MyData> // checks that my_account.info.owner == Fg6PaFpoGXkYsidMpWTK6W2BeZ7FEfcYkg476zPFsLnS
///     pub auth_account: InterfaceAccount<'info, Auth> // checks that auth_account.info.owner == FEZGUxNhZWpYPj9MJCrZJvUo1iF9ys34UHx52y4SzVW9
/// }
///
/// // In a different program
///
/// ...
/// declare_id!("FEZGUxNhZWpYPj9MJCrZJvUo1iF9ys34UHx52y4SzVW9");
/// #[account]
/// #[derive(Default)]
/// pub struct Auth {
///     pub authorized: bool
/// }
/// ...
/// ```
///
/// # Using InterfaceAccount with non-anchor programs
///
/// InterfaceAccount can also be used with non-anchor programs. The data types from
/// those programs are not annotated with `#[account]` so you have to
/// - create a wrapper type around the structs you want to wrap with InterfaceAccount
/// - implement the functions required by InterfaceAccount yourself
///
/// instead of using `#[account]`. You only have to implement a fraction of the
/// functions `#[account]` generates. See the example below for the code you have
/// to write.
///
/// The mint wrapper type that Anchor provides out of the box for the token program ([source](https://github.com/coral-xyz/anchor/blob/master/spl/src/token.rs))
/// ```ignore
/// #[derive(Clone)]
/// pub struct Mint(spl_token::state::Mint);
///
/// // This is necessary so we can use "anchor_spl::token::Mint::LEN"
/// // because rust does not resolve "anchor_spl::token::Mint::LEN" to
/// // "spl_token::state::Mint::LEN" automatically
/// impl Mint {
///     pub const LEN: usize = spl_token::state::Mint::LEN;
/// }
///
/// // You don't have to implement the "try_deserialize" function
/// // from this trait. It delegates to
/// // "try_deserialize_unchecked" by default which is what we want here
/// // because non-anchor accounts don't have a discriminator to check
/// impl anchor_lang::AccountDeserialize for Mint {
///     fn try_deserialize_unchecked(buf: &mut &[u8]) -> Result<Self> {
///         spl_token::state::Mint::unpack(buf).map(Mint)
///     }
/// }
/// // AccountSerialize defaults to a no-op which is what we want here
/// // because it's a foreign program, so our program does not
/// // have permission to write to the foreign program's accounts anyway
/// impl anchor_lang::AccountSerialize for Mint {}
///
/// impl anchor_lang::Owner for Mint {
///     fn owner() -> Pubkey {
///         // pub use spl_token::ID is used at the top of the file
///         ID
///     }
/// }
///
/// // Implement the "std::ops::Deref" trait for better user experience
/// impl Deref for Mint {
///     type Target = spl_token::state::Mint;
///
///     fn deref(&self) -> &Self::Target {
///         &self.0
///     }
/// }
/// ```
///
/// ## Out of the box wrapper types
///
/// ### SPL Types
///
/// Anchor provides wrapper types to access accounts owned by the token programs. Use
/// ```ignore
/// use anchor_spl::token_interface::TokenAccount;
///
/// #[derive(Accounts)]
/// pub struct Example {
///     pub my_acc: InterfaceAccount<'info, TokenAccount>
/// }
/// ```
/// to access token accounts and
/// ```ignore
/// use anchor_spl::token_interface::Mint;
///
/// #[derive(Accounts)]
/// pub struct Example {
///     pub my_acc: InterfaceAccount<'info, Mint>
/// }
/// ```
/// to access mint accounts.
#[derive(Clone)]
pub struct InterfaceAccount<'info, T: AccountSerialize + AccountDeserialize + Clone> {
    account: Account<'info, T>,
    // The owner here is used to make sure that changes aren't incorrectly propagated
    // to an account with a modified owner
    owner: Pubkey,
}

impl<T: AccountSerialize + AccountDeserialize + Clone + fmt::Debug> fmt::Debug
    for InterfaceAccount<'_, T>
{
    fn fmt(&self, f: &mut fmt::Formatter<'_>) -> fmt::Result {
        self.account.fmt_with_name("InterfaceAccount", f)
    }
}

impl<'a, T: AccountSerialize + AccountDeserialize + Clone> InterfaceAccount<'a, T> {
    fn new(info: &'a AccountInfo<'a>, account: T) -> Self {
        let owner = *info.owner;
        Self {
            account: Account::new(info, account),
            owner,
        }
    }

    /// Reloads the account from storage. This is useful, for example, when
    /// observing side effects after CPI.
    pub fn reload(&mut self) -> Result<()> {
        self.account.reload()
    }

    pub fn into_inner(self) -> T {
        self.account.into_inner()
    }

    /// Sets the inner account.
    ///
    /// Instead of this:
    /// ```ignore
    /// pub fn new_user(ctx: Context<CreateUser>, new_user:User) -> Result<()> {
    ///     (*ctx.accounts.user_to_create).name = new_user.name;
    ///     (*ctx.accounts.user_to_create).age = new_user.age;
    ///     (*ctx.accounts.user_to_create).address = new_user.address;
    /// }
    /// ```
    /// You can do this:
    /// ```ignore
    /// pub fn new_user(ctx: Context<CreateUser>, new_user:User) -> Result<()> {
    ///     ctx.accounts.user_to_create.set_inner(new_user);
    /// }
    /// ```
    pub fn set_inner(&mut self, inner: T) {
        self.account.set_inner(inner);
    }
}

impl<'a, T: AccountSerialize + AccountDeserialize + CheckOwner + Clone> InterfaceAccount<'a, T> {
    /// Deserializes the given `info` into a `InterfaceAccount`.
    #[inline(never)]
    pub fn try_from(info: &'a AccountInfo<'a>) -> Result<Self> {
        if info.owner == &system_program::ID && info.lamports() == 0 {
            return Err(ErrorCode::AccountNotInitialized.into());
        }
        T::check_owner(info.owner)?;
        let mut data: &[u8] = &info.try_borrow_data()?;
        Ok(Self::new(info, T::try_deserialize(&mut data)?))
    }

    /// Deserializes the given `info` into a `InterfaceAccount` without checking
    /// the account discriminator. Be careful when using this and avoid it if
    /// possible.
    #[inline(never)]
    pub fn try_from_unchecked(info: &'a AccountInfo<'a>) -> Result<Self> {
        if info.owner == &system_program::ID && info.lamports() == 0 {
            return Err(ErrorCode::AccountNotInitialized.into());
        }
        T::check_owner(info.owner)?;
        let mut data: &[u8] = &info.try_borrow_data()?;
        Ok(Self::new(info, T::try_deserialize_unchecked(&mut data)?))
    }
}

impl<'info, B, T: AccountSerialize + AccountDeserialize + CheckOwner + Clone> Accounts<'info, B>
    for InterfaceAccount<'info, T>
{
    #[inline(never)]
    fn try_accounts(
        _program_id: &Pubkey,
        accounts: &mut &'info [AccountInfo<'info>],
        _ix_data: &[u8],
        _bumps: &mut B,
        _reallocs: &mut BTreeSet<Pubkey>,
    ) -> Result<Self> {
        if accounts.is_empty() {
            return Err(ErrorCode::AccountNotEnoughKeys.into());
        }
        let account = &accounts[0];
        *accounts = &accounts[1..];
        Self::try_from(account)
    }
}

impl<'info, T: AccountSerialize + AccountDeserialize + Owners + Clone> AccountsExit<'info>
    for InterfaceAccount<'info, T>
{
    fn exit(&self, program_id: &Pubkey) -> Result<()> {
        self.account
            .exit_with_expected_owner(&self.owner, program_id)
    }
}

impl<'info, T: AccountSerialize + AccountDeserialize + Clone> AccountsClose<'info>
    for InterfaceAccount<'info, T>
{
    fn close(&self, sol_destination: AccountInfo<'info>) -> Result<()> {
        self.account.close(sol_destination)
    }
}

impl<T: AccountSerialize + AccountDeserialize + Clone> ToAccountMetas for InterfaceAccount<'_, T> {
    fn to_account_metas(&self, is_signer: Option<bool>) -> Vec<AccountMeta> {
        self.account.to_account_metas(is_signer)
    }
}

impl<'info, T: AccountSerialize + AccountDeserialize + Clone> ToAccountInfos<'info>
    for InterfaceAccount<'info, T>
{
    fn to_account_infos(&self) -> Vec<AccountInfo<'info>> {
        self.account.to_account_infos()
    }
}

impl<'info, T: AccountSerialize + AccountDeserialize + Clone> AsRef<AccountInfo<'info>>
    for InterfaceAccount<'info, T>
{
    fn as_ref(&self) -> &AccountInfo<'info> {
        self.account.as_ref()
    }
}

impl<T: AccountSerialize + AccountDeserialize + Clone> AsRef<T> for InterfaceAccount<'_, T> {
    fn as_ref(&self) -> &T {
        self.account.as_ref()
    }
}

impl<T: AccountSerialize + AccountDeserialize + Clone> Deref for InterfaceAccount<'_, T> {
    type Target = T;

    fn deref(&self) -> &Self::Target {
        self.account.deref()
    }
}

impl<T: AccountSerialize + AccountDeserialize + Clone> DerefMut for InterfaceAccount<'_, T> {
    fn deref_mut(&mut self) -> &mut Self::Target {
        self.account.deref_mut()
    }
}

impl<T: AccountSerialize + AccountDeserialize + Clone> Key for InterfaceAccount<'_, T> {
    fn key(&self) -> Pubkey {
        self.account.key()
    }
}
