//! Box<T> type to save stack space.
//!
//! Sometimes accounts are too large for the stack,
//! leading to stack violations.
//!
//! Boxing the account can help.
//!
//! # Example
//! ```ignore
//! #[derive(Accounts)]
//! pub struct Example {
//!     pub my_acc: Box<Account<'info, MyData>>
//! }
//! ```

use crate::solana_program::account_info::AccountInfo;
use crate::solana_program::instruction::AccountMeta;
use crate::solana_program::pubkey::Pubkey;
use crate::{Accounts, AccountsClose, AccountsExit, Result, ToAccountInfos, ToAccountMetas};
use std::collections::BTreeSet;
use std::ops::Deref;

impl<'info, B, T: Accounts<'info, B>> Accounts<'info, B> for Box<T> {
    fn try_accounts(
        program_id: &Pubkey,
        accounts: &mut &'info [AccountInfo<'info>],
        ix_data: &[u8],
        bumps: &mut B,
        reallocs: &mut BTreeSet<Pubkey>,
    ) -> Result<Self> {
        T::try_accounts(program_id, accounts, ix_data, bumps, reallocs).map(Box::new)
    }
}

impl<'info, T: AccountsExit<'info>> AccountsExit<'info> for Box<T> {
    fn exit(&self, program_id: &Pubkey) -> Result<()> {
        T::exit(Deref::deref(self), program_id)
    }
}

impl<'info, T: ToAccountInfos<'info>> ToAccountInfos<'info> for Box<T> {
    fn to_account_infos(&self) -> Vec<AccountInfo<'info>> {
        T::to_account_infos(self)
    }
}

impl<T: ToAccountMetas> ToAccountMetas for Box<T> {
    fn to_account_metas(&self, is_signer: Option<bool>) -> Vec<AccountMeta> {
        T::to_account_metas(self, is_signer)
    }
}

impl<'info, T: AccountsClose<'info>> AccountsClose<'info> for Box<T> {
    fn close(&self, sol_destination: AccountInfo<'info>) -> Result<()> {
        T::close(self, sol_destination)
    }
}
