//! Account container that checks ownership on deserialization.

use crate::bpf_writer::BpfWriter;
use crate::error::{Error, ErrorCode};
use crate::solana_program::account_info::AccountInfo;
use crate::solana_program::instruction::AccountMeta;
use crate::solana_program::pubkey::Pubkey;
use crate::solana_program::system_program;
use crate::{
    AccountDeserialize, AccountSerialize, Accounts, AccountsClose, AccountsExit, Key, Owner,
    Result, ToAccountInfo, ToAccountInfos, ToAccountMetas,
};
use std::collections::BTreeSet;
use std::fmt;
use std::ops::{Deref, DerefMut};

/// Wrapper around [`AccountInfo`](crate::solana_program::account_info::AccountInfo)
/// that verifies program ownership and deserializes underlying data into a Rust type.
///
/// # Table of Contents
/// - [Basic Functionality](#basic-functionality)
/// - [Using Account with non-anchor types](#using-account-with-non-anchor-types)
/// - [Out of the box wrapper types](#out-of-the-box-wrapper-types)
///
/// # Basic Functionality
///
/// Account checks that `Account.info.owner == T::owner()`.
/// This means that the data type that Accounts wraps around (`=T`) needs to
/// implement the [Owner trait](crate::Owner).
/// The `#[account]` attribute implements the Owner trait for
/// a struct using the `crate::ID` declared by [`declare_id`](crate::declare_id)
/// in the same program. It follows that Account can also be used
/// with a `T` that comes from a different program.
///
/// Checks:
///
/// - `Account.info.owner == T::owner()`
/// - `!(Account.info.owner == SystemProgram && Account.info.lamports() == 0)`
///
/// # Example
/// ```ignore
/// use anchor_lang::prelude::*;
/// use other_program::Auth;
///
/// declare_id!("Fg6PaFpoGXkYsidMpWTK6W2BeZ7FEfcYkg476zPFsLnS");
///
/// #[program]
/// mod hello_anchor {
///     use super::*;
///     pub fn set_data(ctx: Context<SetData>, data: u64) -> Result<()> {
///         if (*ctx.accounts.auth_account).authorized {
///             (*ctx.accounts.my_account).data = data;
///         }
///         Ok(())
///     }
/// }
///
/// #[account]
/// #[derive(Default)]
/// pub struct MyData {
///     pub data: u64
/// }
///
/// #[derive(Accounts)]
/// pub struct SetData<'info> {
///     #[account(mut)]
///     pub my_account: Account<'info, MyData> // checks that my_account.info.owner == Fg6PaFpoGXkYsidMpWTK6W2BeZ7FEfcYkg476zPFsLnS
///     pub auth_account: Account<'info, Auth> // checks that auth_account.info.owner == FEZGUxNhZWpYPj9MJCrZJvUo1iF9ys34UHx52y4SzVW9
/// }
///
/// // In a different program
///
/// ...
/// declare_id!("FEZGUxNhZWpYPj9MJCrZJvUo1iF9ys34UHx52y4SzVW9");
/// #[account]
/// #[derive(Default)]
/// pub struct Auth {
///     pub authorized: bool
/// }
/// ...
/// ```
///
/// # Using Account with non-anchor programs
///
/// Account can also be used with non-anchor programs. The data types from
/// those programs are not annotated with `#[account]` so you have to
/// - create a wrapper type around the structs you want to wrap with Account
/// - implement the functions required by Account yourself
///
/// instead of using `#[account]`. You only have to implement a fraction of the
/// functions `#[account]` generates. See the example below for the code you have
/// to write.
///
/// The mint wrapper type that Anchor provides out of the box for the token program ([source](https://github.com/coral-xyz/anchor/blob/master/spl/src/token.rs))
/// ```ignore
/// #[derive(Clone)]
/// pub struct Mint(spl_token::state::Mint);
///
/// // This is necessary so we can use "anchor_spl::token::Mint::LEN"
/// // because rust does not resolve "anchor_spl::token::Mint::LEN" to
/// // "spl_token::state::Mint::LEN" automatically
/// impl Mint {
///     pub const LEN: usize = spl_token::state::Mint::LEN;
/// }
///
/// // You don't have to implement the "try_deserialize" function
/// // from this trait. It delegates to
/// // "try_deserialize_unchecked" by default which is what we want here
/// // because non-anchor accounts don't have a discriminator to check
/// impl anchor_lang::AccountDeserialize for Mint {
///     fn try_deserialize_unchecked(buf: &mut &[u8]) -> Result<Self> {
///         spl_token::state::Mint::unpack(buf).map(Mint)
///     }
/// }
/// // AccountSerialize defaults to a no-op which is what we want here
/// // because it's a foreign program, so our program does not
/// // have permission to write to the foreign program's accounts anyway
/// impl anchor_lang::AccountSerialize for Mint {}
///
/// impl anchor_lang::Owner for Mint {
///     fn owner() -> Pubkey {
///         // pub use spl_token::ID is used at the top of the file
///         ID
///     }
/// }
///
/// // Implement the "std::ops::Deref" trait for better user experience
/// impl Deref for Mint {
///     type Target = spl_token::state::Mint;
///
///     fn deref(&self) -> &Self::Target {
///         &self.0
///     }
/// }
/// ```
///
/// ## Out of the box wrapper types
///
/// ### Accessing BPFUpgradeableLoader Data
///
/// Anchor provides wrapper types to access data stored in programs owned by the BPFUpgradeableLoader
/// such as the upgrade authority. If you're interested in the data of a program account, you can use
/// ```ignore
/// Account<'info, BpfUpgradeableLoaderState>
/// ```
/// and then match on its contents inside your instruction function.
///
/// Alternatively, you can use
/// ```ignore
/// Account<'info, ProgramData>
/// ```
/// to let anchor do the matching for you and return the ProgramData variant of BpfUpgradeableLoaderState.
///
/// # Example
/// ```ignore
/// use anchor_lang::prelude::*;
/// use crate::program::MyProgram;
///
/// declare_id!("Cum9tTyj5HwcEiAmhgaS7Bbj4UczCwsucrCkxRECzM4e");
///
/// #[program]
/// pub mod my_program {
///     use super::*;
///
///     pub fn set_initial_admin(
///         ctx: Context<SetInitialAdmin>,
///         admin_key: Pubkey
///     ) -> Result<()> {
///         ctx.accounts.admin_settings.admin_key = admin_key;
///         Ok(())
///     }
///
///     pub fn set_admin(...){...}
///
///     pub fn set_settings(...){...}
/// }
///
/// #[account]
/// #[derive(Default, Debug)]
/// pub struct AdminSettings {
///     admin_key: Pubkey
/// }
///
/// #[derive(Accounts)]
/// pub struct SetInitialAdmin<'info> {
///     #[account(init, payer = authority, seeds = [b"admin"], bump)]
///     pub admin_settings: Account<'info, AdminSettings>,
///     #[account(mut)]
///     pub authority: Signer<'info>,
///     #[account(constraint = program.programdata_address()? == Some(program_data.key()))]
///     pub program: Program<'info, MyProgram>,
///     #[account(constraint = program_data.upgrade_authority_address == Some(authority.key()))]
///     pub program_data: Account<'info, ProgramData>,
///     pub system_program: Program<'info, System>,
/// }
/// ```
///
/// This example solves a problem you may face if your program has admin settings: How do you set the
/// admin key for restricted functionality after deployment? Setting the admin key itself should
/// be a restricted action but how do you restrict it without having set an admin key?
/// You're stuck in a loop.
/// One solution is to use the upgrade authority of the program as the initial
/// (or permanent) admin key.
///
/// ### SPL Types
///
/// Anchor provides wrapper types to access accounts owned by the token program. Use
/// ```ignore
/// use anchor_spl::token::TokenAccount;
///
/// #[derive(Accounts)]
/// pub struct Example {
///     pub my_acc: Account<'info, TokenAccount>
/// }
/// ```
/// to access token accounts and
/// ```ignore
/// use anchor_spl::token::Mint;
///
/// #[derive(Accounts)]
/// pub struct Example {
///     pub my_acc: Account<'info, Mint>
/// }
/// ```
/// to access mint accounts.
#[derive(Clone)]
pub struct Account<'info, T: AccountSerialize + AccountDeserialize + Clone> {
    account: T,
    info: &'info AccountInfo<'info>,
}

impl<T: AccountSerialize + AccountDeserialize + Clone + fmt::Debug> fmt::Debug for Account<'_, T> {
    fn fmt(&self, f: &mut fmt::Formatter<'_>) -> fmt::Result {
        self.fmt_with_name("Account", f)
    }
}

impl<T: AccountSerialize + AccountDeserialize + Clone + fmt::Debug> Account<'_, T> {
    pub(crate) fn fmt_with_name(&self, name: &str, f: &mut fmt::Formatter<'_>) -> fmt::Result {
        f.debug_struct(name)
            .field("account", &self.account)
            .field("info", &self.info)
            .finish()
    }
}

impl<'a, T: AccountSerialize + AccountDeserialize + Clone> Account<'a, T> {
    pub(crate) fn new(info: &'a AccountInfo<'a>, account: T) -> Account<'a, T> {
        Self { info, account }
    }

    pub(crate) fn exit_with_expected_owner(
        &self,
        expected_owner: &Pubkey,
        program_id: &Pubkey,
    ) -> Result<()> {
        // Only persist if the owner is the current program and the account is not closed.
        if expected_owner == program_id && !crate::common::is_closed(self.info) {
            let mut data = self.info.try_borrow_mut_data()?;
            let dst: &mut [u8] = &mut data;
            let mut writer = BpfWriter::new(dst);
            self.account.try_serialize(&mut writer)?;
        }
        Ok(())
    }

    /// Reloads the account from storage. This is useful, for example, when
    /// observing side effects after CPI.
    pub fn reload(&mut self) -> Result<()> {
        let mut data: &[u8] = &self.info.try_borrow_data()?;
        self.account = T::try_deserialize(&mut data)?;
        Ok(())
    }

    pub fn into_inner(self) -> T {
        self.account
    }

    /// Sets the inner account.
    ///
    /// Instead of this:
    /// ```ignore
    /// pub fn new_user(ctx: Context<CreateUser>, new_user:User) -> Result<()> {
    ///     (*ctx.accounts.user_to_create).name = new_user.name;
    ///     (*ctx.accounts.user_to_create).age = new_user.age;
    ///     (*ctx.accounts.user_to_create).address = new_user.address;
    /// }
    /// ```
    /// You can do this:
    /// ```ignore
    /// pub fn new_user(ctx: Context<CreateUser>, new_user:User) -> Result<()> {
    ///     ctx.accounts.user_to_create.set_inner(new_user);
    /// }
    /// ```
    pub fn set_inner(&mut self, inner: T) {
        self.account = inner;
    }
}

impl<'a, T: AccountSerialize + AccountDeserialize + Owner + Clone> Account<'a, T> {
    /// Deserializes the given `info` into a `Account`.
    #[inline(never)]
    pub fn try_from(info: &'a AccountInfo<'a>) -> Result<Account<'a, T>> {
        if info.owner == &system_program::ID && info.lamports() == 0 {
            return Err(ErrorCode::AccountNotInitialized.into());
        }
        if info.owner != &T::owner() {
            return Err(Error::from(ErrorCode::AccountOwnedByWrongProgram)
                .with_pubkeys((*info.owner, T::owner())));
        }
        let mut data: &[u8] = &info.try_borrow_data()?;
        Ok(Account::new(info, T::try_deserialize(&mut data)?))
    }

    /// Deserializes the given `info` into a `Account` without checking
    /// the account discriminator. Be careful when using this and avoid it if
    /// possible.
    #[inline(never)]
    pub fn try_from_unchecked(info: &'a AccountInfo<'a>) -> Result<Account<'a, T>> {
        if info.owner == &system_program::ID && info.lamports() == 0 {
            return Err(ErrorCode::AccountNotInitialized.into());
        }
        if info.owner != &T::owner() {
            return Err(Error::from(ErrorCode::AccountOwnedByWrongProgram)
                .with_pubkeys((*info.owner, T::owner())));
        }
        let mut data: &[u8] = &info.try_borrow_data()?;
        Ok(Account::new(info, T::try_deserialize_unchecked(&mut data)?))
    }
}

impl<'info, B, T: AccountSerialize + AccountDeserialize + Owner + Clone> Accounts<'info, B>
    for Account<'info, T>
where
    T: AccountSerialize + AccountDeserialize + Owner + Clone,
{
    #[inline(never)]
    fn try_accounts(
        _program_id: &Pubkey,
        accounts: &mut &'info [AccountInfo<'info>],
        _ix_data: &[u8],
        _bumps: &mut B,
        _reallocs: &mut BTreeSet<Pubkey>,
    ) -> Result<Self> {
        if accounts.is_empty() {
            return Err(ErrorCode::AccountNotEnoughKeys.into());
        }
        let account = &accounts[0];
        *accounts = &accounts[1..];
        Account::try_from(account)
    }
}

impl<'info, T: AccountSerialize + AccountDeserialize + Owner + Clone> AccountsExit<'info>
    for Account<'info, T>
{
    fn exit(&self, program_id: &Pubkey) -> Result<()> {
        self.exit_with_expected_owner(&T::owner(), program_id)
    }
}

impl<'info, T: AccountSerialize + AccountDeserialize + Clone> AccountsClose<'info>
    for Account<'info, T>
{
    fn close(&self, sol_destination: AccountInfo<'info>) -> Result<()> {
        crate::common::close(self.to_account_info(), sol_destination)
    }
}

impl<T: AccountSerialize + AccountDeserialize + Clone> ToAccountMetas for Account<'_, T> {
    fn to_account_metas(&self, is_signer: Option<bool>) -> Vec<AccountMeta> {
        let is_signer = is_signer.unwrap_or(self.info.is_signer);
        let meta = match self.info.is_writable {
            false => AccountMeta::new_readonly(*self.info.key, is_signer),
            true => AccountMeta::new(*self.info.key, is_signer),
        };
        vec![meta]
    }
}

impl<'info, T: AccountSerialize + AccountDeserialize + Clone> ToAccountInfos<'info>
    for Account<'info, T>
{
    fn to_account_infos(&self) -> Vec<AccountInfo<'info>> {
        vec![self.info.clone()]
    }
}

impl<'info, T: AccountSerialize + AccountDeserialize + Clone> AsRef<AccountInfo<'info>>
    for Account<'info, T>
{
    fn as_ref(&self) -> &AccountInfo<'info> {
        self.info
    }
}

impl<T: AccountSerialize + AccountDeserialize + Clone> AsRef<T> for Account<'_, T> {
    fn as_ref(&self) -> &T {
        &self.account
    }
}

impl<T: AccountSerialize + AccountDeserialize + Clone> Deref for Account<'_, T> {
    type Target = T;

    fn deref(&self) -> &Self::Target {
        &(self).account
    }
}

impl<T: AccountSerialize + AccountDeserialize + Clone> DerefMut for Account<'_, T> {
    fn deref_mut(&mut self) -> &mut Self::Target {
        #[cfg(feature = "anchor-debug")]
        if !self.info.is_writable {
            solana_program::msg!("The given Account is not mutable");
            panic!();
        }
        &mut self.account
    }
}

impl<T: AccountSerialize + AccountDeserialize + Clone> Key for Account<'_, T> {
    fn key(&self) -> Pubkey {
        *self.info.key
    }
}
