//! Explicit wrapper for AccountInfo types to emphasize
//! that no checks are performed

use crate::error::ErrorCode;
use crate::solana_program::account_info::AccountInfo;
use crate::solana_program::instruction::AccountMeta;
use crate::solana_program::pubkey::Pubkey;
use crate::{Accounts, AccountsExit, Key, Result, ToAccountInfos, ToAccountMetas};
use std::collections::BTreeSet;
use std::ops::Deref;

/// Explicit wrapper for AccountInfo types to emphasize
/// that no checks are performed
#[derive(Debug, Clone)]
pub struct UncheckedAccount<'info>(&'info AccountInfo<'info>);

impl<'info> UncheckedAccount<'info> {
    pub fn try_from(acc_info: &'info AccountInfo<'info>) -> Self {
        Self(acc_info)
    }
}

impl<'info, B> Accounts<'info, B> for UncheckedAccount<'info> {
    fn try_accounts(
        _program_id: &Pubkey,
        accounts: &mut &'info [AccountInfo<'info>],
        _ix_data: &[u8],
        _bumps: &mut B,
        _reallocs: &mut BTreeSet<Pubkey>,
    ) -> Result<Self> {
        if accounts.is_empty() {
            return Err(ErrorCode::AccountNotEnoughKeys.into());
        }
        let account = &accounts[0];
        *accounts = &accounts[1..];
        Ok(UncheckedAccount(account))
    }
}

impl ToAccountMetas for UncheckedAccount<'_> {
    fn to_account_metas(&self, is_signer: Option<bool>) -> Vec<AccountMeta> {
        let is_signer = is_signer.unwrap_or(self.is_signer);
        let meta = match self.is_writable {
            false => AccountMeta::new_readonly(*self.key, is_signer),
            true => AccountMeta::new(*self.key, is_signer),
        };
        vec![meta]
    }
}

impl<'info> ToAccountInfos<'info> for UncheckedAccount<'info> {
    fn to_account_infos(&self) -> Vec<AccountInfo<'info>> {
        vec![self.0.clone()]
    }
}

impl<'info> AccountsExit<'info> for UncheckedAccount<'info> {}

impl<'info> AsRef<AccountInfo<'info>> for UncheckedAccount<'info> {
    fn as_ref(&self) -> &AccountInfo<'info> {
        self.0
    }
}

impl<'info> Deref for UncheckedAccount<'info> {
    type Target = AccountInfo<'info>;

    fn deref(&self) -> &Self::Target {
        self.0
    }
}

impl Key for UncheckedAccount<'_> {
    fn key(&self) -> Pubkey {
        *self.0.key
    }
}
