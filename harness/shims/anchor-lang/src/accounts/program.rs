//! Type validating that the account is the given Program

use crate::error::{Error, ErrorCode};
use crate::solana_program::account_info::AccountInfo;
use crate::solana_program::bpf_loader_upgradeable::{self, UpgradeableLoaderState};
use crate::solana_program::instruction::AccountMeta;
use crate::solana_program::pubkey::Pubkey;
use crate::{
    AccountDeserialize, Accounts, AccountsExit, Id, Key, Result, ToAccountInfos, ToAccountMetas,
};
use std::collections::BTreeSet;
use std::fmt;
use std::marker::PhantomData;
use std::ops::Deref;

/// Type validating that the account is the given Program
///
/// The type has a `programdata_address` function that will return `Option::Some`
/// if the program is owned by the [`BPFUpgradeableLoader`](https://docs.rs/solana-program/latest/solana_program/bpf_loader_upgradeable/index.html)
/// which will contain the `programdata_address` property of the `Program` variant of the [`UpgradeableLoaderState`](https://docs.rs/solana-program/latest/solana_program/bpf_loader_upgradeable/enum.UpgradeableLoaderState.html) enum.
///
/// # Table of Contents
/// - [Basic Functionality](#basic-functionality)
/// - [Out of the Box Types](#out-of-the-box-types)
///
/// # Basic Functionality
///
/// Checks:
///
/// - `account_info.key == expected_program`
/// - `account_info.executable == true`
///
/// # Example
/// ```ignore
/// #[program]
/// mod my_program {
///     fn set_admin_settings(...){...}
/// }
///
/// #[account]
/// #[derive(Default)]
/// pub struct AdminSettings {
///     ...
/// }
///
/// #[derive(Accounts)]
/// pub struct SetAdminSettings<'info> {
///     #[account(mut, seeds = [b"admin"], bump)]
///     pub admin_settings: Account<'info, AdminSettings>,
///     #[account(constraint = program.programdata_address()? == Some(program_data.key()))]
///     pub program: Program<'info, MyProgram>,
///     #[account(constraint = program_data.upgrade_authority_address == Some(authority.key()))]
///     pub program_data: Account<'info, ProgramData>,
///     pub authority: Signer<'info>,
/// }
/// ```
/// The given program has a function with which the upgrade authority can set admin settings.
///
/// The required constraints are as follows:
///
/// - `program` is the account of the program itself.
///   Its constraint checks that `program_data` is the account that contains the program's upgrade authority.
///   Implicitly, this checks that `program` is a BPFUpgradeable program (`program.programdata_address()?`
///   will be `None` if it's not).
/// - `program_data`'s constraint checks that its upgrade authority is the `authority` account.
/// - Finally, `authority` needs to sign the transaction.
///
/// # Out of the Box Types
///
/// Between the [`anchor_lang`](https://docs.rs/anchor-lang/latest/anchor_lang) and [`anchor_spl`](https://docs.rs/anchor_spl/latest/anchor_spl) crates,
/// the following `Program` types are provided out of the box:
///
/// - [`System`](https://docs.rs/anchor-lang/latest/anchor_lang/struct.System.html)
/// - [`AssociatedToken`](https://docs.rs/anchor-spl/latest/anchor_spl/associated_token/struct.AssociatedToken.html)
/// - [`Token`](https://docs.rs/anchor-spl/latest/anchor_spl/token/struct.Token.html)
///
#[derive(Clone)]
pub struct Program<'info, T> {
    info: &'info AccountInfo<'info>,
    _phantom: PhantomData<T>,
}

impl<T: fmt::Debug> fmt::Debug for Program<'_, T> {
    fn fmt(&self, f: &mut fmt::Formatter<'_>) -> fmt::Result {
        f.debug_struct("Program").field("info", &self.info).finish()
    }
}

impl<'a, T> Program<'a, T> {
    pub(crate) fn new(info: &'a AccountInfo<'a>) -> Program<'a, T> {
        Self {
            info,
            _phantom: PhantomData,
        }
    }

    pub fn programdata_address(&self) -> Result<Option<Pubkey>> {
        if *self.info.owner == bpf_loader_upgradeable::ID {
            let mut data: &[u8] = &self.info.try_borrow_data()?;
            let upgradable_loader_state =
                UpgradeableLoaderState::try_deserialize_unchecked(&mut data)?;

            match upgradable_loader_state {
                UpgradeableLoaderState::Uninitialized
                | UpgradeableLoaderState::Buffer {
                    authority_address: _,
                }
                | UpgradeableLoaderState::ProgramData {
                    slot: _,
                    upgrade_authority_address: _,
                } => {
                    // Unreachable because check in try_from
                    // ensures that program is executable
                    // and therefore a program account.
                    unreachable!()
                }
                UpgradeableLoaderState::Program {
                    programdata_address,
                } => Ok(Some(programdata_address)),
            }
        } else {
            Ok(None)
        }
    }
}

impl<'a, T: Id> TryFrom<&'a AccountInfo<'a>> for Program<'a, T> {
    type Error = Error;
    /// Deserializes the given `info` into a `Program`.
    fn try_from(info: &'a AccountInfo<'a>) -> Result<Self> {
        if info.key != &T::id() {
            return Err(Error::from(ErrorCode::InvalidProgramId).with_pubkeys((*info.key, T::id())));
        }
        if !info.executable {
            return Err(ErrorCode::InvalidProgramExecutable.into());
        }

        Ok(Program::new(info))
    }
}

impl<'info, B, T: Id> Accounts<'info, B> for Program<'info, T> {
    #[inline(never)]
    fn try_accounts(
        _program_id: &Pubkey,
        accounts: &mut &'info [AccountInfo<'info>],
        _ix_data: &[u8],
        _bumps: &mut B,
        _reallocs: &mut BTreeSet<Pubkey>,
    ) -> Result<Self> {
        if accounts.is_empty() {
            return Err(ErrorCode::AccountNotEnoughKeys.into());
        }
        let account = &accounts[0];
        *accounts = &accounts[1..];
        Program::try_from(account)
    }
}

impl<T> ToAccountMetas for Program<'_, T> {
    fn to_account_metas(&self, is_signer: Option<bool>) -> Vec<AccountMeta> {
        let is_signer = is_signer.unwrap_or(self.info.is_signer);
        let meta = match self.info.is_writable {
            false => AccountMeta::new_readonly(*self.info.key, is_signer),
            true => AccountMeta::new(*self.info.key, is_signer),
        };
        vec![meta]
    }
}

impl<'info, T> ToAccountInfos<'info> for Program<'info, T> {
    fn to_account_infos(&self) -> Vec<AccountInfo<'info>> {
        vec![self.info.clone()]
    }
}

impl<'info, T> AsRef<AccountInfo<'info>> for Program<'info, T> {
    fn as_ref(&self) -> &AccountInfo<'info> {
        self.info
    }
}

impl<'info, T> Deref for Program<'info, T> {
    type Target = AccountInfo<'info>;

    fn deref(&self) -> &Self::Target {
        self.info
    }
}

impl<'info, T: AccountDeserialize> AccountsExit<'info> for Program<'info, T> {}

impl<T: AccountDeserialize> Key for Program<'_, T> {
    fn key(&self) -> Pubkey {
        *self.info.key
    }
}
