//! Type validating that the account is one of a set of given Programs

use crate::accounts::program::Program;
use crate::error::{Error, ErrorCode};
use crate::solana_program::account_info::AccountInfo;
use crate::solana_program::instruction::AccountMeta;
use crate::solana_program::pubkey::Pubkey;
use crate::{
    AccountDeserialize, Accounts, AccountsExit, CheckId, Key, Result, ToAccountInfos,
    ToAccountMetas,
};
use std::collections::BTreeSet;
use std::ops::Deref;

/// Type validating that the account is one of a set of given Programs
///
/// The `Interface` wraps over the [`Program`](crate::Program), allowing for
/// multiple possible program ids. Useful for any program that implements an
/// instruction interface. For example, spl-token and spl-token-2022 both implement
/// the spl-token interface.
///
/// # Table of Contents
/// - [Basic Functionality](#basic-functionality)
/// - [Out of the Box Types](#out-of-the-box-types)
///
/// # Basic Functionality
///
/// Checks:
///
/// - `expected_programs.contains(account_info.key)`
/// - `account_info.executable == true`
///
/// # Example
/// ```ignore
/// #[program]
/// mod my_program {
///     fn set_admin_settings(...){...}
/// }
///
/// #[account]
/// #[derive(Default)]
/// pub struct AdminSettings {
///     ...
/// }
///
/// #[derive(Accounts)]
/// pub struct SetAdminSettings<'info> {
///     #[account(mut, seeds = [b"admin"], bump)]
///     pub admin_settings: Account<'info, AdminSettings>,
///     #[account(constraint = program.programdata_address()? == Some(program_data.key()))]
///     pub program: Interface<'info, MyProgram>,
///     #[account(constraint = program_data.upgrade_authority_address == Some(authority.key()))]
///     pub program_data: Account<'info, ProgramData>,
///     pub authority: Signer<'info>,
/// }
/// ```
/// The given program has a function with which the upgrade authority can set admin settings.
///
/// The required constraints are as follows:
///
/// - `program` is the account of the program itself.
///   Its constraint checks that `program_data` is the account that contains the program's upgrade authority.
///   Implicitly, this checks that `program` is a BPFUpgradeable program (`program.programdata_address()?`
///   will be `None` if it's not).
/// - `program_data`'s constraint checks that its upgrade authority is the `authority` account.
/// - Finally, `authority` needs to sign the transaction.
///
/// # Out of the Box Types
///
/// Between the [`anchor_lang`](https://docs.rs/anchor-lang/latest/anchor_lang) and [`anchor_spl`](https://docs.rs/anchor_spl/latest/anchor_spl) crates,
/// the following `Interface` types are provided out of the box:
///
/// - [`TokenInterface`](https://docs.rs/anchor-spl/latest/anchor_spl/token_interface/struct.TokenInterface.html)
///
#[derive(Clone)]
pub struct Interface<'info, T>(Program<'info, T>);
impl<'a, T> Interface<'a, T> {
    pub(crate) fn new(info: &'a AccountInfo<'a>) -> Self {
        Self(Program::new(info))
    }
    pub fn programdata_address(&self) -> Result<Option<Pubkey>> {
        self.0.programdata_address()
    }
}
impl<'a, T: CheckId> TryFrom<&'a AccountInfo<'a>> for Interface<'a, T> {
    type Error = Error;
    /// Deserializes the given `info` into a `Program`.
    fn try_from(info: &'a AccountInfo<'a>) -> Result<Self> {
        T::check_id(info.key)?;
        if !info.executable {
            return Err(ErrorCode::InvalidProgramExecutable.into());
        }
        Ok(Self::new(info))
    }
}
impl<'info, T> Deref for Interface<'info, T> {
    type Target = AccountInfo<'info>;
    fn deref(&self) -> &Self::Target {
        &self.0
    }
}
impl<'info, T> AsRef<AccountInfo<'info>> for Interface<'info, T> {
    fn as_ref(&self) -> &AccountInfo<'info> {
        &self.0
    }
}

impl<'info, B, T: CheckId> Accounts<'info, B> for Interface<'info, T> {
    #[inline(never)]
    fn try_accounts(
        _program_id: &Pubkey,
        accounts: &mut &'info [AccountInfo<'info>],
        _ix_data: &[u8],
        _bumps: &mut B,
        _reallocs: &mut BTreeSet<Pubkey>,
    ) -> Result<Self> {
        if accounts.is_empty() {
            return Err(ErrorCode::AccountNotEnoughKeys.into());
        }
        let account = &accounts[0];
        *accounts = &accounts[1..];
        Self::try_from(account)
    }
}

impl<T> ToAccountMetas for Interface<'_, T> {
    fn to_account_metas(&self, is_signer: Option<bool>) -> Vec<AccountMeta> {
        self.0.to_account_metas(is_signer)
    }
}

impl<'info, T> ToAccountInfos<'info> for Interface<'info, T> {
    fn to_account_infos(&self) -> Vec<AccountInfo<'info>> {
        self.0.to_account_infos()
    }
}

impl<'info, T: AccountDeserialize> AccountsExit<'info> for Interface<'info, T> {}

impl<T: AccountDeserialize> Key for Interface<'_, T> {
    fn key(&self) -> Pubkey {
        self.0.key()
    }
}
