//! Type validating that the account is a sysvar and deserializing it

use crate::error::ErrorCode;
use crate::solana_program::account_info::AccountInfo;
use crate::solana_program::instruction::AccountMeta;
use crate::solana_program::pubkey::Pubkey;
use crate::{Accounts, AccountsExit, Key, Result, ToAccountInfos, ToAccountMetas};
use std::collections::BTreeSet;
use std::fmt;
use std::ops::{Deref, DerefMut};

/// Type validating that the account is a sysvar and deserializing it.
///
/// If possible, sysvars should not be used via accounts
/// but by using the [`get`](https://docs.rs/solana-program/latest/solana_program/sysvar/trait.Sysvar.html#method.get)
/// function on the desired sysvar. This is because using `get`
/// does not run the risk of Anchor having a bug in its `Sysvar` type
/// and using `get` also decreases tx size, making space for other
/// accounts that cannot be requested via syscall.
///
/// # Example
/// ```ignore
/// // OK - via account in the account validation struct
/// #[derive(Accounts)]
/// pub struct Example<'info> {
///     pub clock: Sysvar<'info, Clock>
/// }
/// // BETTER - via syscall in the instruction function
/// fn better(ctx: Context<Better>) -> Result<()> {
///     let clock = Clock::get()?;
/// }
/// ```
pub struct Sysvar<'info, T: crate::solana_program::sysvar::Sysvar> {
    info: &'info AccountInfo<'info>,
    account: T,
}

impl<T: crate::solana_program::sysvar::Sysvar + fmt::Debug> fmt::Debug for Sysvar<'_, T> {
    fn fmt(&self, f: &mut fmt::Formatter<'_>) -> fmt::Result {
        f.debug_struct("Sysvar")
            .field("info", &self.info)
            .field("account", &self.account)
            .finish()
    }
}

impl<'info, T: crate::solana_program::sysvar::Sysvar> Sysvar<'info, T> {
    pub fn from_account_info(acc_info: &'info AccountInfo<'info>) -> Result<Sysvar<'info, T>> {
        match T::from_account_info(acc_info) {
            Ok(val) => Ok(Sysvar {
                info: acc_info,
                account: val,
            }),
            Err(_) => Err(ErrorCode::AccountSysvarMismatch.into()),
        }
    }
}

impl<T: crate::solana_program::sysvar::Sysvar> Clone for Sysvar<'_, T> {
    fn clone(&self) -> Self {
        Self {
            info: self.info,
            account: T::from_account_info(self.info).unwrap(),
        }
    }
}

impl<'info, B, T: crate::solana_program::sysvar::Sysvar> Accounts<'info, B> for Sysvar<'info, T> {
    fn try_accounts(
        _program_id: &Pubkey,
        accounts: &mut &'info [AccountInfo<'info>],
        _ix_data: &[u8],
        _bumps: &mut B,
        _reallocs: &mut BTreeSet<Pubkey>,
    ) -> Result<Self> {
        if accounts.is_empty() {
            return Err(ErrorCode::AccountNotEnoughKeys.into());
        }
        let account = &accounts[0];
        *accounts = &accounts[1..];
        Sysvar::from_account_info(account)
    }
}

impl<T: crate::solana_program::sysvar::Sysvar> ToAccountMetas for Sysvar<'_, T> {
    fn to_account_metas(&self, _is_signer: Option<bool>) -> Vec<AccountMeta> {
        vec![AccountMeta::new_readonly(*self.info.key, false)]
    }
}

impl<'info, T: crate::solana_program::sysvar::Sysvar> ToAccountInfos<'info> for Sysvar<'info, T> {
    fn to_account_infos(&self) -> Vec<AccountInfo<'info>> {
        vec![self.info.clone()]
    }
}

impl<'info, T: crate::solana_program::sysvar::Sysvar> AsRef<AccountInfo<'info>>
    for Sysvar<'info, T>
{
    fn as_ref(&self) -> &AccountInfo<'info> {
        self.info
    }
}

impl<T: crate::solana_program::sysvar::Sysvar> Deref for Sysvar<'_, T> {
    type Target = T;

    fn deref(&self) -> &Self::Target {
        &self.account
    }
}

impl<T: crate::solana_program::sysvar::Sysvar> DerefMut for Sysvar<'_, T> {
    fn deref_mut(&mut self) -> &mut Self::Target {
        &mut self.account
    }
}

impl<'info, T: crate::solana_program::sysvar::Sysvar> AccountsExit<'info> for Sysvar<'info, T> {}

impl<T: crate::solana_program::sysvar::Sysvar> Key for Sysvar<'_, T> {
    fn key(&self) -> Pubkey {
        *self.info.key
    }
}
