//! Type facilitating on demand zero copy deserialization.

use crate::bpf_writer::BpfWriter;
use crate::error::{Error, ErrorCode};
use crate::solana_program::account_info::AccountInfo;
use crate::solana_program::instruction::AccountMeta;
use crate::solana_program::pubkey::Pubkey;
use crate::{
    Accounts, AccountsClose, AccountsExit, Key, Owner, Result, ToAccountInfo, ToAccountInfos,
    ToAccountMetas, ZeroCopy,
};
use std::cell::{Ref, RefMut};
use std::collections::BTreeSet;
use std::fmt;
use std::io::Write;
use std::marker::PhantomData;
use std::mem;
use std::ops::DerefMut;

/// Type facilitating on demand zero copy deserialization.
///
/// Note that using accounts in this way is distinctly different from using,
/// for example, the [`Account`](crate::accounts::account::Account). Namely,
/// one must call
/// - `load_init` after initializing an account (this will ignore the missing
///   account discriminator that gets added only after the user's instruction code)
/// - `load` when the account is not mutable
/// - `load_mut` when the account is mutable
///
/// For more details on zero-copy-deserialization, see the
/// [`account`](crate::account) attribute.
/// <p style=";padding:0.75em;border: 1px solid #ee6868">
/// <strong>⚠️ </strong> When using this type it's important to be mindful
/// of any calls to the <code>load</code> functions so as not to
/// induce a <code>RefCell</code> panic, especially when sharing accounts across CPI
/// boundaries. When in doubt, one should make sure all refs resulting from
/// a call to a <code>load</code> function are dropped before CPI.
/// This can be done explicitly by calling <code>drop(my_var)</code> or implicitly
/// by wrapping the code using the <code>Ref</code> in braces <code>{..}</code> or
/// moving it into its own function.
/// </p>
///
/// # Example
/// ```ignore
/// use anchor_lang::prelude::*;
///
/// declare_id!("Fg6PaFpoGXkYsidMpWTK6W2BeZ7FEfcYkg476zPFsLnS");
///
/// #[program]
/// pub mod bar {
///     use super::*;
///
///     pub fn create_bar(ctx: Context<CreateBar>, data: u64) -> Result<()> {
///         let bar = &mut ctx.accounts.bar.load_init()?;
///         bar.authority = ctx.accounts.authority.key();
///         bar.data = data;
///         Ok(())
///     }
///
///     pub fn update_bar(ctx: Context<UpdateBar>, data: u64) -> Result<()> {
///         (*ctx.accounts.bar.load_mut()?).data = data;
///         Ok(())
///     }
/// }
///
/// #[account(zero_copy)]
/// #[derive(Default)]
/// pub struct Bar {
///     authority: Pubkey,
///     data: u64
/// }
///
/// #[derive(Accounts)]
/// pub struct CreateBar<'info> {
///     #[account(
///         init,
///         payer = authority
///     )]
///     bar: AccountLoader<'info, Bar>,
///     #[account(mut)]
///     authority: Signer<'info>,
///     system_program: AccountInfo<'info>,
/// }
///
/// #[derive(Accounts)]
/// pub struct UpdateBar<'info> {
///     #[account(
///         mut,
///         has_one = authority,
///     )]
///     pub bar: AccountLoader<'info, Bar>,
///     pub authority: Signer<'info>,
/// }
/// ```
#[derive(Clone)]
pub struct AccountLoader<'info, T: ZeroCopy + Owner> {
    acc_info: &'info AccountInfo<'info>,
    phantom: PhantomData<&'info T>,
}

impl<T: ZeroCopy + Owner + fmt::Debug> fmt::Debug for AccountLoader<'_, T> {
    fn fmt(&self, f: &mut fmt::Formatter<'_>) -> fmt::Result {
        f.debug_struct("AccountLoader")
            .field("acc_info", &self.acc_info)
            .field("phantom", &self.phantom)
            .finish()
    }
}

impl<'info, T: ZeroCopy + Owner> AccountLoader<'info, T> {
    fn new(acc_info: &'info AccountInfo<'info>) -> AccountLoader<'info, T> {
        Self {
            acc_info,
            phantom: PhantomData,
        }
    }

    /// Constructs a new `Loader` from a previously initialized account.
    #[inline(never)]
    pub fn try_from(acc_info: &'info AccountInfo<'info>) -> Result<AccountLoader<'info, T>> {
        if acc_info.owner != &T::owner() {
            return Err(Error::from(ErrorCode::AccountOwnedByWrongProgram)
                .with_pubkeys((*acc_info.owner, T::owner())));
        }

        let data = &acc_info.try_borrow_data()?;
        let disc = T::DISCRIMINATOR;
        if data.len() < disc.len() {
            return Err(ErrorCode::AccountDiscriminatorNotFound.into());
        }

        let given_disc = &data[..disc.len()];
        if given_disc != disc {
            return Err(ErrorCode::AccountDiscriminatorMismatch.into());
        }

        Ok(AccountLoader::new(acc_info))
    }

    /// Constructs a new `Loader` from an uninitialized account.
    #[inline(never)]
    pub fn try_from_unchecked(
        _program_id: &Pubkey,
        acc_info: &'info AccountInfo<'info>,
    ) -> Result<AccountLoader<'info, T>> {
        if acc_info.owner != &T::owner() {
            return Err(Error::from(ErrorCode::AccountOwnedByWrongProgram)
                .with_pubkeys((*acc_info.owner, T::owner())));
        }
        Ok(AccountLoader::new(acc_info))
    }

    /// Returns a Ref to the account data structure for reading.
    pub fn load(&self) -> Result<Ref<'_, T>> {
        let data = self.acc_info.try_borrow_data()?;
        let disc = T::DISCRIMINATOR;
        if data.len() < disc.len() {
            return Err(ErrorCode::AccountDiscriminatorNotFound.into());
        }

        let given_disc = &data[..disc.len()];
        if given_disc != disc {
            return Err(ErrorCode::AccountDiscriminatorMismatch.into());
        }

        Ok(Ref::map(data, |data| {
            bytemuck::from_bytes(&data[disc.len()..mem::size_of::<T>() + disc.len()])
        }))
    }

    /// Returns a `RefMut` to the account data structure for reading or writing.
    pub fn load_mut(&self) -> Result<RefMut<'_, T>> {
        // AccountInfo api allows you to borrow mut even if the account isn't
        // writable, so add this check for a better dev experience.
        if !self.acc_info.is_writable {
            return Err(ErrorCode::AccountNotMutable.into());
        }

        let data = self.acc_info.try_borrow_mut_data()?;
        let disc = T::DISCRIMINATOR;
        if data.len() < disc.len() {
            return Err(ErrorCode::AccountDiscriminatorNotFound.into());
        }

        let given_disc = &data[..disc.len()];
        if given_disc != disc {
            return Err(ErrorCode::AccountDiscriminatorMismatch.into());
        }

        Ok(RefMut::map(data, |data| {
            bytemuck::from_bytes_mut(
                &mut data.deref_mut()[disc.len()..mem::size_of::<T>() + disc.len()],
            )
        }))
    }

    /// Returns a `RefMut` to the account data structure for reading or writing.
    /// Should only be called once, when the account is being initialized.
    pub fn load_init(&self) -> Result<RefMut<'_, T>> {
        // AccountInfo api allows you to borrow mut even if the account isn't
        // writable, so add this check for a better dev experience.
        if !self.acc_info.is_writable {
            return Err(ErrorCode::AccountNotMutable.into());
        }

        let data = self.acc_info.try_borrow_mut_data()?;

        // The discriminator should be zero, since we're initializing.
        let disc = T::DISCRIMINATOR;
        let given_disc = &data[..disc.len()];
        let has_disc = given_disc.iter().any(|b| *b != 0);
        if has_disc {
            return Err(ErrorCode::AccountDiscriminatorAlreadySet.into());
        }

        Ok(RefMut::map(data, |data| {
            bytemuck::from_bytes_mut(
                &mut data.deref_mut()[disc.len()..mem::size_of::<T>() + disc.len()],
            )
        }))
    }
}

impl<'info, B, T: ZeroCopy + Owner> Accounts<'info, B> for AccountLoader<'info, T> {
    #[inline(never)]
    fn try_accounts(
        _program_id: &Pubkey,
        accounts: &mut &'info [AccountInfo<'info>],
        _ix_data: &[u8],
        _bumps: &mut B,
        _reallocs: &mut BTreeSet<Pubkey>,
    ) -> Result<Self> {
        if accounts.is_empty() {
            return Err(ErrorCode::AccountNotEnoughKeys.into());
        }
        let account = &accounts[0];
        *accounts = &accounts[1..];
        let l = AccountLoader::try_from(account)?;
        Ok(l)
    }
}

impl<'info, T: ZeroCopy + Owner> AccountsExit<'info> for AccountLoader<'info, T> {
    // The account *cannot* be loaded when this is called.
    fn exit(&self, program_id: &Pubkey) -> Result<()> {
        // Only persist if the owner is the current program and the account is not closed.
        if &T::owner() == program_id && !crate::common::is_closed(self.acc_info) {
            let mut data = self.acc_info.try_borrow_mut_data()?;
            let dst: &mut [u8] = &mut data;
            let mut writer = BpfWriter::new(dst);
            writer.write_all(T::DISCRIMINATOR).unwrap();
        }
        Ok(())
    }
}

impl<'info, T: ZeroCopy + Owner> AccountsClose<'info> for AccountLoader<'info, T> {
    fn close(&self, sol_destination: AccountInfo<'info>) -> Result<()> {
        crate::common::close(self.to_account_info(), sol_destination)
    }
}

impl<T: ZeroCopy + Owner> ToAccountMetas for AccountLoader<'_, T> {
    fn to_account_metas(&self, is_signer: Option<bool>) -> Vec<AccountMeta> {
        let is_signer = is_signer.unwrap_or(self.acc_info.is_signer);
        let meta = match self.acc_info.is_writable {
            false => AccountMeta::new_readonly(*self.acc_info.key, is_signer),
            true => AccountMeta::new(*self.acc_info.key, is_signer),
        };
        vec![meta]
    }
}

impl<'info, T: ZeroCopy + Owner> AsRef<AccountInfo<'info>> for AccountLoader<'info, T> {
    fn as_ref(&self) -> &AccountInfo<'info> {
        self.acc_info
    }
}

impl<'info, T: ZeroCopy + Owner> ToAccountInfos<'info> for AccountLoader<'info, T> {
    fn to_account_infos(&self) -> Vec<AccountInfo<'info>> {
        vec![self.acc_info.clone()]
    }
}

impl<T: ZeroCopy + Owner> Key for AccountLoader<'_, T> {
    fn key(&self) -> Pubkey {
        *self.acc_info.key
    }
}
