//! Type validating that the account signed the transaction
use crate::error::ErrorCode;
use crate::solana_program::account_info::AccountInfo;
use crate::solana_program::instruction::AccountMeta;
use crate::solana_program::pubkey::Pubkey;
use crate::{Accounts, AccountsExit, Key, Result, ToAccountInfos, ToAccountMetas};
use std::collections::BTreeSet;
use std::ops::Deref;

/// Type validating that the account signed the transaction. No other ownership
/// or type checks are done. If this is used, one should not try to access the
/// underlying account data.
///
/// Checks:
///
/// - `Signer.info.is_signer == true`
///
/// # Example
/// ```ignore
/// #[account]
/// #[derive(Default)]
/// pub struct MyData {
///     pub data: u64
/// }
///
/// #[derive(Accounts)]
/// pub struct Example<'info> {
///     #[account(init, payer = payer)]
///     pub my_acc: Account<'info, MyData>,
///     #[account(mut)]
///     pub payer: Signer<'info>,
///     pub system_program: Program<'info, System>
/// }
/// ```
///
/// When creating an account with `init`, the `payer` needs to sign the transaction.
#[derive(Debug, Clone)]
pub struct Signer<'info> {
    info: &'info AccountInfo<'info>,
}

impl<'info> Signer<'info> {
    fn new(info: &'info AccountInfo<'info>) -> Signer<'info> {
        Self { info }
    }

    /// Deserializes the given `info` into a `Signer`.
    #[inline(never)]
    pub fn try_from(info: &'info AccountInfo<'info>) -> Result<Signer<'info>> {
        if !info.is_signer {
            return Err(ErrorCode::AccountNotSigner.into());
        }
        Ok(Signer::new(info))
    }
}

impl<'info, B> Accounts<'info, B> for Signer<'info> {
    #[inline(never)]
    fn try_accounts(
        _program_id: &Pubkey,
        accounts: &mut &'info [AccountInfo<'info>],
        _ix_data: &[u8],
        _bumps: &mut B,
        _reallocs: &mut BTreeSet<Pubkey>,
    ) -> Result<Self> {
        if accounts.is_empty() {
            return Err(ErrorCode::AccountNotEnoughKeys.into());
        }
        let account = &accounts[0];
        *accounts = &accounts[1..];
        Signer::try_from(account)
    }
}

impl<'info> AccountsExit<'info> for Signer<'info> {}

impl ToAccountMetas for Signer<'_> {
    fn to_account_metas(&self, is_signer: Option<bool>) -> Vec<AccountMeta> {
        let is_signer = is_signer.unwrap_or(self.info.is_signer);
        let meta = match self.info.is_writable {
            false => AccountMeta::new_readonly(*self.info.key, is_signer),
            true => AccountMeta::new(*self.info.key, is_signer),
        };
        vec![meta]
    }
}

impl<'info> ToAccountInfos<'info> for Signer<'info> {
    fn to_account_infos(&self) -> Vec<AccountInfo<'info>> {
        vec![self.info.clone()]
    }
}

impl<'info> AsRef<AccountInfo<'info>> for Signer<'info> {
    fn as_ref(&self) -> &AccountInfo<'info> {
        self.info
    }
}

impl<'info> Deref for Signer<'info> {
    type Target = AccountInfo<'info>;

    fn deref(&self) -> &Self::Target {
        self.info
    }
}

impl Key for Signer<'_> {
    fn key(&self) -> Pubkey {
        *self.info.key
    }
}
