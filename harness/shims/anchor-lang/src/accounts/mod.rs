//! Account types that can be used in the account validation struct.

pub mod account;
pub mod account_info;
pub mod account_loader;
pub mod boxed;
pub mod interface;
pub mod interface_account;
pub mod option;
pub mod program;
pub mod signer;
pub mod system_account;
pub mod sysvar;
pub mod unchecked_account;

#[cfg(feature = "lazy-account")]
pub mod lazy_account;
