use crate::{AnchorDeserialize, Pubkey};

/// A helper trait to make lazy deserialization work.
///
/// Currently this is only implemented for [`borsh`], as it's not necessary for zero copy via
/// [`bytemuck`]. However, the functionality can be extended when we support custom serialization
/// in the future.
///
/// # Note
///
/// You should avoid implementing this trait manually.
///
/// It's currently implemented automatically if you derive [`AnchorDeserialize`]:
///
/// ```ignore
/// #[derive(AnchorDeserialize)]
/// pub struct MyStruct {
///     field: u8,
/// }
/// ```
pub trait Lazy: AnchorDeserialize {
    /// Whether the type is a fixed-size type.
    const SIZED: bool = false;

    /// Get the serialized size of the type from the given buffer.
    ///
    /// For performance reasons, this method does not verify the validity of the data, and should
    /// never fail.
    ///
    /// # Panics
    ///
    /// If the given buffer cannot be used to deserialize the data e.g. it's shorter than the
    /// expected data. However, this doesn't mean it will panic **whenever** there is an incorrect
    /// data e.g. passing **any** data for `bool::size_of` works, even when the buffer is empty.
    fn size_of(buf: &[u8]) -> usize;
}

macro_rules! impl_sized {
    ($ty: ty) => {
        impl Lazy for $ty {
            const SIZED: bool = true;

            #[inline(always)]
            fn size_of(_buf: &[u8]) -> usize {
                ::core::mem::size_of::<$ty>()
            }
        }
    };
}

impl_sized!(bool);
impl_sized!(u8);
impl_sized!(u16);
impl_sized!(u32);
impl_sized!(u64);
impl_sized!(u128);
impl_sized!(i8);
impl_sized!(i16);
impl_sized!(i32);
impl_sized!(i64);
impl_sized!(i128);
impl_sized!(f32);
impl_sized!(f64);
impl_sized!(Pubkey);

impl<T: Lazy, const N: usize> Lazy for [T; N] {
    const SIZED: bool = T::SIZED;

    #[inline(always)]
    fn size_of(buf: &[u8]) -> usize {
        N * T::size_of(buf)
    }
}

impl Lazy for String {
    const SIZED: bool = false;

    #[inline(always)]
    fn size_of(buf: &[u8]) -> usize {
        LEN + get_len(buf)
    }
}

impl<T: Lazy> Lazy for Option<T> {
    const SIZED: bool = false;

    #[inline(always)]
    fn size_of(buf: &[u8]) -> usize {
        1 + match buf.first() {
            Some(0) => 0,
            Some(1) => T::size_of(&buf[1..]),
            _ => unreachable!(),
        }
    }
}

impl<T: Lazy> Lazy for Vec<T> {
    const SIZED: bool = false;

    #[inline(always)]
    fn size_of(buf: &[u8]) -> usize {
        (0..get_len(buf)).fold(LEN, |acc, _| acc + T::size_of(&buf[acc..]))
    }
}

/// `borsh` length identifier of unsized types.
const LEN: usize = 4;

#[inline(always)]
fn get_len(buf: &[u8]) -> usize {
    u32::from_le_bytes((buf[..LEN].try_into()).unwrap())
        .try_into()
        .unwrap()
}

#[cfg(test)]
mod tests {
    use super::*;
    use crate::AnchorSerialize;

    macro_rules! len {
        ($val: expr) => {
            $val.try_to_vec().unwrap().len()
        };
    }

    #[test]
    fn sized() {
        // Sized inputs don't care about the passed data
        const EMPTY: &[u8] = &[];
        assert_eq!(bool::size_of(EMPTY), len!(true));
        assert_eq!(u8::size_of(EMPTY), len!(0u8));
        assert_eq!(u16::size_of(EMPTY), len!(0u16));
        assert_eq!(u32::size_of(EMPTY), len!(0u32));
        assert_eq!(u64::size_of(EMPTY), len!(0u64));
        assert_eq!(u128::size_of(EMPTY), len!(0u128));
        assert_eq!(i8::size_of(EMPTY), len!(0i8));
        assert_eq!(i16::size_of(EMPTY), len!(0i16));
        assert_eq!(i32::size_of(EMPTY), len!(0i32));
        assert_eq!(i64::size_of(EMPTY), len!(0i64));
        assert_eq!(i128::size_of(EMPTY), len!(0i128));
        assert_eq!(f32::size_of(EMPTY), len!(0f32));
        assert_eq!(f64::size_of(EMPTY), len!(0f64));
        assert_eq!(Pubkey::size_of(EMPTY), len!(Pubkey::default()));
        assert_eq!(<[i32; 4]>::size_of(EMPTY), len!([0i32; 4]));
    }

    #[test]
    fn r#unsized() {
        assert_eq!(String::size_of(&[1, 0, 0, 0, 65]), len!(String::from("a")));
        assert_eq!(<Option<u8>>::size_of(&[0]), len!(Option::<u8>::None));
        assert_eq!(<Option<u8>>::size_of(&[1, 1]), len!(Some(1u8)));
        assert_eq!(<Vec<u8>>::size_of(&[1, 0, 0, 0, 1]), len!(vec![1u8]));
        assert_eq!(
            <Vec<String>>::size_of(&[1, 0, 0, 0, 1, 0, 0, 0, 65]),
            len!(vec![String::from("a")])
        );
        assert_eq!(
            <Vec<String>>::size_of(&[2, 0, 0, 0, 1, 0, 0, 0, 65, 2, 0, 0, 0, 65, 66]),
            len!(vec![String::from("a"), String::from("ab")])
        );
    }

    #[test]
    fn defined() {
        // Struct
        #[derive(AnchorSerialize, AnchorDeserialize)]
        struct MyStruct {
            a: u8,
            b: Vec<u8>,
            c: Option<String>,
        }

        assert_eq!(
            MyStruct::size_of(&[1, 2, 0, 0, 0, 1, 2, 1, 1, 0, 0, 0, 65]),
            len!(MyStruct {
                a: 1,
                b: vec![1u8, 2],
                c: Some(String::from("a"))
            })
        );
        assert!(!MyStruct::SIZED);

        // Enum
        #[derive(AnchorSerialize, AnchorDeserialize)]
        enum MyEnum {
            Unit,
            Named { a: u8 },
            Unnamed(i16, i16),
        }

        assert_eq!(MyEnum::size_of(&[0]), len!(MyEnum::Unit));
        assert_eq!(MyEnum::size_of(&[1, 23]), len!(MyEnum::Named { a: 1 }));
        assert_eq!(
            MyEnum::size_of(&[2, 1, 2, 1, 2]),
            len!(MyEnum::Unnamed(1, 2))
        );
        assert!(!MyEnum::SIZED);
    }

    #[test]
    fn generic() {
        #[derive(AnchorSerialize, AnchorDeserialize)]
        struct GenericStruct<T: Lazy> {
            t: T,
        }

        assert_eq!(
            GenericStruct::<i64>::size_of(&[1, 2, 3, 4, 5, 6, 7, 8]),
            len!(GenericStruct { t: 1i64 })
        );
        assert!(GenericStruct::<i64>::SIZED);

        assert_eq!(
            GenericStruct::<Vec<u8>>::size_of(&[8, 0, 0, 0, 1, 2, 3, 4, 5, 6, 7, 8]),
            len!(GenericStruct { t: vec![0u8; 8] })
        );
        assert!(!GenericStruct::<Vec<u8>>::SIZED);
    }
}
