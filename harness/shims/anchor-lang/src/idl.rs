//! Defines the instructions and account state used to store a program's
//! IDL on-chain at a canonical account address, which can be derived as a
//! function of nothing other than the program's ID.
//!
//! It can be upgraded in a way similar to a BPF upgradeable program. That is,
//! one may invoke the `IdlInstruction::CreateBuffer` instruction to create
//! a buffer, `IdlInstruction::Write` to write a new IDL into it, and then
//! `IdlInstruction::SetBuffer` to copy the IDL into the program's canonical
//! IDL account. In order to perform this upgrade, the buffer's `authority`
//! must match the canonical IDL account's authority.
//!
//! Because the IDL can be larger than the max transaction size, the transaction
//! must be broken up into several pieces and stored into the IDL account with
//! multiple transactions via the `Write` instruction to continuously append to
//! the account's IDL data buffer.
//!
//! Note that IDL account instructions are automatically inserted into all
//! Anchor programs. To remove them, one can use the `no-idl` feature.

use crate::prelude::*;

// The first 8 bytes of an instruction to create or modify the IDL account. This
// instruction is defined outside the main program's instruction enum, so that
// the enum variant tags can align with function source order.
//
// Sha256(anchor:idl)[..8];
pub const IDL_IX_TAG: u64 = 0x0a69e9a778bcf440;
pub const IDL_IX_TAG_LE: &[u8] = IDL_IX_TAG.to_le_bytes().as_slice();

// The Pubkey that is stored as the 'authority' on the IdlAccount when the authority
// is "erased".
pub const ERASED_AUTHORITY: Pubkey = Pubkey::new_from_array([0u8; 32]);

#[derive(AnchorSerialize, AnchorDeserialize)]
pub enum IdlInstruction {
    // One time initializer for creating the program's idl account.
    Create { data_len: u64 },
    // Creates a new IDL account buffer. Can be called several times.
    CreateBuffer,
    // Appends the given data to the end of the idl account buffer.
    Write { data: Vec<u8> },
    // Sets a new data buffer for the IdlAccount.
    SetBuffer,
    // Sets a new authority on the IdlAccount.
    SetAuthority { new_authority: Pubkey },
    Close,
    // Increases account size for accounts that need over 10kb.
    Resize { data_len: u64 },
}

// The account holding a program's IDL. This is stored on chain so that clients
// can fetch it and generate a client with nothing but a program's ID.
//
// Note: we use the same account for the "write buffer", similar to the
//       bpf upgradeable loader's mechanism.
//
// TODO: IdlAccount exists here only because it's needed by the CLI, the IDL
// itself uses an IdlAccount defined inside the program itself, see program/idl.rs.
// Ideally it would be deleted and a better solution for sharing the type with CLI
// could be found.
#[account("internal")]
#[derive(Debug)]
pub struct IdlAccount {
    // Address that can modify the IDL.
    pub authority: Pubkey,
    // Length of compressed idl bytes.
    pub data_len: u32,
    // Followed by compressed idl bytes.
}

impl IdlAccount {
    pub fn address(program_id: &Pubkey) -> Pubkey {
        let program_signer = Pubkey::find_program_address(&[], program_id).0;
        Pubkey::create_with_seed(&program_signer, IdlAccount::seed(), program_id)
            .expect("Seed is always valid")
    }
    pub fn seed() -> &'static str {
        "anchor:idl"
    }
}

#[cfg(feature = "idl-build")]
pub use anchor_lang_idl::{build::IdlBuild, *};
