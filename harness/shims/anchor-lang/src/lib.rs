#![cfg_attr(docsrs, feature(doc_auto_cfg))]

//! Anchor ⚓ is a framework for Solana's Sealevel runtime providing several
//! convenient developer tools.
//!
//! - Rust eDSL for writing safe, secure, and high level Solana programs
//! - [IDL](https://en.wikipedia.org/wiki/Interface_description_language) specification
//! - TypeScript package for generating clients from IDL
//! - CLI and workspace management for developing complete applications
//!
//! If you're familiar with developing in Ethereum's
//! [Solidity](https://docs.soliditylang.org/en/v0.7.4/),
//! [Truffle](https://www.trufflesuite.com/),
//! [web3.js](https://github.com/ethereum/web3.js) or Parity's
//! [Ink!](https://github.com/paritytech/ink), then the experience will be
//! familiar. Although the syntax and semantics are targeted at Solana, the high
//! level workflow of writing RPC request handlers, emitting an IDL, and
//! generating clients from IDL is the same.
//!
//! For detailed tutorials and examples on how to use Anchor, see the guided
//! [tutorials](https://anchor-lang.com) or examples in the GitHub
//! [repository](https://github.com/coral-xyz/anchor).
//!
//! Presented here are the Rust primitives for building on Solana.

extern crate self as anchor_lang;

use crate::solana_program::account_info::AccountInfo;
use crate::solana_program::instruction::AccountMeta;
use crate::solana_program::program_error::ProgramError;
use crate::solana_program::pubkey::Pubkey;
use bytemuck::{Pod, Zeroable};
use std::{collections::BTreeSet, fmt::Debug, io::Write};

mod account_meta;
pub mod accounts;
mod bpf_upgradeable_state;
mod bpf_writer;
mod common;
pub mod context;
pub mod error;
#[doc(hidden)]
pub mod event;
#[doc(hidden)]
pub mod idl;
pub mod system_program;
mod vec;

#[cfg(feature = "lazy-account")]
mod lazy;

pub use crate::bpf_upgradeable_state::*;
pub use anchor_attribute_access_control::access_control;
pub use anchor_attribute_account::{account, declare_id, pubkey, zero_copy};
pub use anchor_attribute_constant::constant;
pub use anchor_attribute_error::*;
pub use anchor_attribute_event::{emit, event};
pub use anchor_attribute_program::{declare_program, instruction, program};
pub use anchor_derive_accounts::Accounts;
pub use anchor_derive_serde::{AnchorDeserialize, AnchorSerialize};
pub use anchor_derive_space::InitSpace;

/// Borsh is the default serialization format for instructions and accounts.
pub use borsh::de::BorshDeserialize as AnchorDeserialize;
pub use borsh::ser::BorshSerialize as AnchorSerialize;
pub mod solana_program {
    pub use solana_feature_gate_interface as feature;

    pub use {
        solana_account_info as account_info, solana_clock as clock, solana_msg::msg,
        solana_program_entrypoint as entrypoint, solana_program_entrypoint::entrypoint,
        solana_program_error as program_error, solana_program_memory as program_memory,
        solana_program_option as program_option, solana_program_pack as program_pack,
        solana_pubkey as pubkey, solana_sdk_ids::system_program,
        solana_system_interface::instruction as system_instruction,
    };
    pub mod instruction {
        pub use solana_instruction::*;
        /// Get the current stack height, transaction-level instructions are height
        /// TRANSACTION_LEVEL_STACK_HEIGHT, fist invoked inner instruction is height
        /// TRANSACTION_LEVEL_STACK_HEIGHT + 1, etc...
        pub fn get_stack_height() -> usize {
            #[cfg(target_os = "solana")]
            unsafe {
                solana_instruction::syscalls::sol_get_stack_height() as usize
            }

            #[cfg(not(target_os = "solana"))]
            {
                solana_sysvar::program_stubs::sol_get_stack_height() as usize
            }
        }
    }
    pub mod rent {
        pub use solana_sysvar::rent::*;
    }
    pub mod program {
        pub use solana_cpi::*;
        pub use solana_invoke::{invoke, invoke_signed, invoke_signed_unchecked, invoke_unchecked};
    }

    pub mod bpf_loader_upgradeable {
        #[allow(deprecated)]
        pub use solana_loader_v3_interface::{
            get_program_data_address,
            instruction::{
                close, close_any, create_buffer, deploy_with_max_program_len, extend_program,
                is_close_instruction, is_set_authority_checked_instruction,
                is_set_authority_instruction, is_upgrade_instruction, set_buffer_authority,
                set_buffer_authority_checked, set_upgrade_authority, set_upgrade_authority_checked,
                upgrade, write,
            },
            state::UpgradeableLoaderState,
        };
        pub use solana_sdk_ids::bpf_loader_upgradeable::{check_id, id, ID};
    }

    pub mod log {
        pub use solana_msg::{msg, sol_log};
        /// Print some slices as base64.
        pub fn sol_log_data(data: &[&[u8]]) {
            #[cfg(target_os = "solana")]
            unsafe {
                solana_define_syscall::definitions::sol_log_data(
                    data as *const _ as *const u8,
                    data.len() as u64,
                )
            };

            #[cfg(not(target_os = "solana"))]
            {
                // VERIF SHIM: off-chain, route emitted event data to the syscall stubs
                // (the on-chain branch above is untouched).
                solana_sysvar::program_stubs::sol_log_data(data);
            }
        }
    }
    pub mod sysvar {
        pub use solana_sysvar_id::{declare_deprecated_sysvar_id, declare_sysvar_id, SysvarId};
        #[deprecated(since = "2.2.0", note = "Use `solana-sysvar` crate instead")]
        #[allow(deprecated)]
        pub use {
            solana_sdk_ids::sysvar::{check_id, id, ID},
            solana_sysvar::{
                clock, epoch_rewards, epoch_schedule, fees, is_sysvar_id, last_restart_slot,
                recent_blockhashes, rent, rewards, slot_hashes, slot_history, stake_history,
                Sysvar, ALL_IDS,
            },
        };
        pub mod instructions {
            pub use solana_instruction::{BorrowedAccountMeta, BorrowedInstruction};
            #[cfg(not(target_os = "solana"))]
            pub use solana_instructions_sysvar::construct_instructions_data;
            #[deprecated(
                since = "2.2.0",
                note = "Use solana-instructions-sysvar crate instead"
            )]
            pub use solana_instructions_sysvar::{
                get_instruction_relative, load_current_index_checked, load_instruction_at_checked,
                store_current_index_checked, Instructions,
            };
            #[deprecated(since = "2.2.0", note = "Use solana-sdk-ids crate instead")]
            pub use solana_sdk_ids::sysvar::instructions::{check_id, id, ID};
        }
    }
}

#[cfg(feature = "event-cpi")]
pub use anchor_attribute_event::{emit_cpi, event_cpi};

#[cfg(feature = "idl-build")]
pub use idl::IdlBuild;

#[cfg(feature = "interface-instructions")]
pub use anchor_attribute_program::interface;

pub type Result<T> = std::result::Result<T, error::Error>;

/// A data structure of validated accounts that can be deserialized from the
/// input to a Solana program. Implementations of this trait should perform any
/// and all requisite constraint checks on accounts to ensure the accounts
/// maintain any invariants required for the program to run securely. In most
/// cases, it's recommended to use the [`Accounts`](./derive.Accounts.html)
/// derive macro to implement this trait.
///
/// Generics:
/// -   `B`: the type of the PDA bumps cache struct generated by the `Accounts` struct.
///     For example,
/// ```rust,ignore
/// pub struct Example<'info> {
///     #[account(
///         init,
///         seeds = [...],
///         bump,
///     )]
///     pub pda_1: UncheckedAccount<'info>,
///     pub not_pda: UncheckedAccount<'info>,
/// }
/// ```
///
///    generates:
///
/// ```rust,ignore
/// pub struct ExampleBumps {
///     pub pda_1: u8,
/// }
/// ```
pub trait Accounts<'info, B>: ToAccountMetas + ToAccountInfos<'info> + Sized {
    /// Returns the validated accounts struct. What constitutes "valid" is
    /// program dependent. However, users of these types should never have to
    /// worry about account substitution attacks. For example, if a program
    /// expects a `Mint` account from the SPL token program  in a particular
    /// field, then it should be impossible for this method to return `Ok` if
    /// any other account type is given--from the SPL token program or elsewhere.
    ///
    /// `program_id` is the currently executing program. `accounts` is the
    /// set of accounts to construct the type from. For every account used,
    /// the implementation should mutate the slice, consuming the used entry
    /// so that it cannot be used again.
    fn try_accounts(
        program_id: &Pubkey,
        accounts: &mut &'info [AccountInfo<'info>],
        ix_data: &[u8],
        bumps: &mut B,
        reallocs: &mut BTreeSet<Pubkey>,
    ) -> Result<Self>;
}

/// Associated bump seeds for `Accounts`.
pub trait Bumps {
    /// Struct to hold account bump seeds.
    type Bumps: Sized + Debug;
}

/// The exit procedure for an account. Any cleanup or persistence to storage
/// should be done here.
pub trait AccountsExit<'info>: ToAccountMetas + ToAccountInfos<'info> {
    /// `program_id` is the currently executing program.
    fn exit(&self, _program_id: &Pubkey) -> Result<()> {
        // no-op
        Ok(())
    }
}

/// The close procedure to initiate garabage collection of an account, allowing
/// one to retrieve the rent exemption.
pub trait AccountsClose<'info>: ToAccountInfos<'info> {
    fn close(&self, sol_destination: AccountInfo<'info>) -> Result<()>;
}

/// Transformation to
/// [`AccountMeta`](../solana_program/instruction/struct.AccountMeta.html)
/// structs.
pub trait ToAccountMetas {
    /// `is_signer` is given as an optional override for the signer meta field.
    /// This covers the edge case when a program-derived-address needs to relay
    /// a transaction from a client to another program but sign the transaction
    /// before the relay. The client cannot mark the field as a signer, and so
    /// we have to override the is_signer meta field given by the client.
    fn to_account_metas(&self, is_signer: Option<bool>) -> Vec<AccountMeta>;
}

/// Transformation to
/// [`AccountInfo`](../solana_program/account_info/struct.AccountInfo.html)
/// structs.
pub trait ToAccountInfos<'info> {
    fn to_account_infos(&self) -> Vec<AccountInfo<'info>>;
}

/// Transformation to an `AccountInfo` struct.
pub trait ToAccountInfo<'info> {
    fn to_account_info(&self) -> AccountInfo<'info>;
}

impl<'info, T> ToAccountInfo<'info> for T
where
    T: AsRef<AccountInfo<'info>>,
{
    fn to_account_info(&self) -> AccountInfo<'info> {
        self.as_ref().clone()
    }
}

/// Lamports related utility methods for accounts.
pub trait Lamports<'info>: AsRef<AccountInfo<'info>> {
    /// Get the lamports of the account.
    fn get_lamports(&self) -> u64 {
        self.as_ref().lamports()
    }

    /// Add lamports to the account.
    ///
    /// This method is useful for transferring lamports from a PDA.
    ///
    /// # Requirements
    ///
    /// 1. The account must be marked `mut`.
    /// 2. The total lamports **before** the transaction must equal to total lamports **after**
    ///    the transaction.
    /// 3. `lamports` field of the account info should not currently be borrowed.
    ///
    /// See [`Lamports::sub_lamports`] for subtracting lamports.
    fn add_lamports(&self, amount: u64) -> Result<&Self> {
        **self.as_ref().try_borrow_mut_lamports()? = self
            .get_lamports()
            .checked_add(amount)
            .ok_or(ProgramError::ArithmeticOverflow)?;
        Ok(self)
    }

    /// Subtract lamports from the account.
    ///
    /// This method is useful for transferring lamports from a PDA.
    ///
    /// # Requirements
    ///
    /// 1. The account must be owned by the executing program.
    /// 2. The account must be marked `mut`.
    /// 3. The total lamports **before** the transaction must equal to total lamports **after**
    ///    the transaction.
    /// 4. `lamports` field of the account info should not currently be borrowed.
    ///
    /// See [`Lamports::add_lamports`] for adding lamports.
    fn sub_lamports(&self, amount: u64) -> Result<&Self> {
        **self.as_ref().try_borrow_mut_lamports()? = self
            .get_lamports()
            .checked_sub(amount)
            .ok_or(ProgramError::ArithmeticOverflow)?;
        Ok(self)
    }
}

impl<'info, T: AsRef<AccountInfo<'info>>> Lamports<'info> for T {}

/// A data structure that can be serialized and stored into account storage,
/// i.e. an
/// [`AccountInfo`](../solana_program/account_info/struct.AccountInfo.html#structfield.data)'s
/// mutable data slice.
///
/// Implementors of this trait should ensure that any subsequent usage of the
/// `AccountDeserialize` trait succeeds if and only if the account is of the
/// correct type.
///
/// In most cases, one can use the default implementation provided by the
/// [`#[account]`](./attr.account.html) attribute.
pub trait AccountSerialize {
    /// Serializes the account data into `writer`.
    fn try_serialize<W: Write>(&self, _writer: &mut W) -> Result<()> {
        Ok(())
    }
}

/// A data structure that can be deserialized and stored into account storage,
/// i.e. an
/// [`AccountInfo`](../solana_program/account_info/struct.AccountInfo.html#structfield.data)'s
/// mutable data slice.
pub trait AccountDeserialize: Sized {
    /// Deserializes previously initialized account data. Should fail for all
    /// uninitialized accounts, where the bytes are zeroed. Implementations
    /// should be unique to a particular account type so that one can never
    /// successfully deserialize the data of one account type into another.
    /// For example, if the SPL token program were to implement this trait,
    /// it should be impossible to deserialize a `Mint` account into a token
    /// `Account`.
    fn try_deserialize(buf: &mut &[u8]) -> Result<Self> {
        Self::try_deserialize_unchecked(buf)
    }

    /// Deserializes account data without checking the account discriminator.
    /// This should only be used on account initialization, when the bytes of
    /// the account are zeroed.
    fn try_deserialize_unchecked(buf: &mut &[u8]) -> Result<Self>;
}

/// An account data structure capable of zero copy deserialization.
pub trait ZeroCopy: Discriminator + Copy + Clone + Zeroable + Pod {}

/// Calculates the data for an instruction invocation, where the data is
/// `Discriminator + BorshSerialize(args)`. `args` is a borsh serialized
/// struct of named fields for each argument given to an instruction.
pub trait InstructionData: Discriminator + AnchorSerialize {
    fn data(&self) -> Vec<u8> {
        let mut data = Vec::with_capacity(256);
        data.extend_from_slice(Self::DISCRIMINATOR);
        self.serialize(&mut data).unwrap();
        data
    }

    /// Clears `data` and writes instruction data to it.
    ///
    /// We use a `Vec<u8>`` here because of the additional flexibility of re-allocation (only if
    /// necessary), and because the data field in `Instruction` expects a `Vec<u8>`.
    fn write_to(&self, mut data: &mut Vec<u8>) {
        data.clear();
        data.extend_from_slice(Self::DISCRIMINATOR);
        self.serialize(&mut data).unwrap()
    }
}

/// An event that can be emitted via a Solana log. See [`emit!`](crate::prelude::emit) for an example.
pub trait Event: AnchorSerialize + AnchorDeserialize + Discriminator {
    fn data(&self) -> Vec<u8>;
}

/// Unique identifier for a type.
///
/// This is not a trait you should derive manually, as various Anchor macros already derive it
/// internally.
///
/// Prior to Anchor v0.31, discriminators were always 8 bytes in size. However, starting with Anchor
/// v0.31, it is possible to override the default discriminators, and discriminator length is no
/// longer fixed, which means this trait can also be implemented for non-Anchor programs.
///
/// It's important that the discriminator is always unique for the type you're implementing it
/// for. While the discriminator can be at any length (including zero), the IDL generation does not
/// currently allow empty discriminators for safety and convenience reasons. However, the trait
/// definition still allows empty discriminators because some non-Anchor programs, e.g. the SPL
/// Token program, don't have account discriminators. In that case, safety checks should never
/// depend on the discriminator.
pub trait Discriminator {
    /// Discriminator slice.
    ///
    /// See [`Discriminator`] trait documentation for more information.
    const DISCRIMINATOR: &'static [u8];
}

/// Defines the space of an account for initialization.
pub trait Space {
    const INIT_SPACE: usize;
}

/// Bump seed for program derived addresses.
pub trait Bump {
    fn seed(&self) -> u8;
}

/// Defines an address expected to own an account.
pub trait Owner {
    fn owner() -> Pubkey;
}

/// Defines a list of addresses expected to own an account.
pub trait Owners {
    fn owners() -> &'static [Pubkey];
}

/// Defines a trait for checking the owner of a program.
pub trait CheckOwner {
    fn check_owner(owner: &Pubkey) -> Result<()>;
}

impl<T: Owners> CheckOwner for T {
    fn check_owner(owner: &Pubkey) -> Result<()> {
        if !Self::owners().contains(owner) {
            Err(
                error::Error::from(error::ErrorCode::AccountOwnedByWrongProgram)
                    .with_account_name(*owner),
            )
        } else {
            Ok(())
        }
    }
}

/// Defines the id of a program.
pub trait Id {
    fn id() -> Pubkey;
}

/// Defines the possible ids of a program.
pub trait Ids {
    fn ids() -> &'static [Pubkey];
}

/// Defines a trait for checking the id of a program.
pub trait CheckId {
    fn check_id(id: &Pubkey) -> Result<()>;
}

impl<T: Ids> CheckId for T {
    fn check_id(id: &Pubkey) -> Result<()> {
        if !Self::ids().contains(id) {
            Err(error::Error::from(error::ErrorCode::InvalidProgramId).with_account_name(*id))
        } else {
            Ok(())
        }
    }
}

/// Defines the Pubkey of an account.
pub trait Key {
    fn key(&self) -> Pubkey;
}

impl Key for Pubkey {
    fn key(&self) -> Pubkey {
        *self
    }
}

/// The prelude contains all commonly used components of the crate.
/// All programs should include it via `anchor_lang::prelude::*;`.
pub mod prelude {
    pub use super::{
        access_control, account, accounts::account::Account,
        accounts::account_loader::AccountLoader, accounts::interface::Interface,
        accounts::interface_account::InterfaceAccount, accounts::program::Program,
        accounts::signer::Signer, accounts::system_account::SystemAccount,
        accounts::sysvar::Sysvar, accounts::unchecked_account::UncheckedAccount, constant,
        context::Context, context::CpiContext, declare_id, declare_program, emit, err, error,
        event, instruction, program, pubkey, require, require_eq, require_gt, require_gte,
        require_keys_eq, require_keys_neq, require_neq,
        solana_program::bpf_loader_upgradeable::UpgradeableLoaderState, source,
        system_program::System, zero_copy, AccountDeserialize, AccountSerialize, Accounts,
        AccountsClose, AccountsExit, AnchorDeserialize, AnchorSerialize, Discriminator, Id,
        InitSpace, Key, Lamports, Owner, ProgramData, Result, Space, ToAccountInfo, ToAccountInfos,
        ToAccountMetas,
    };
    pub use crate::solana_program::account_info::{next_account_info, AccountInfo};
    pub use crate::solana_program::instruction::AccountMeta;
    pub use crate::solana_program::program_error::ProgramError;
    pub use crate::solana_program::pubkey::Pubkey;
    pub use crate::solana_program::sysvar::clock::Clock;
    pub use crate::solana_program::sysvar::epoch_schedule::EpochSchedule;
    pub use crate::solana_program::sysvar::instructions::Instructions;
    pub use crate::solana_program::sysvar::rent::Rent;
    pub use crate::solana_program::sysvar::rewards::Rewards;
    pub use crate::solana_program::sysvar::slot_hashes::SlotHashes;
    pub use crate::solana_program::sysvar::slot_history::SlotHistory;
    pub use crate::solana_program::sysvar::stake_history::StakeHistory;
    pub use crate::solana_program::sysvar::Sysvar as SolanaSysvar;
    pub use crate::solana_program::*;
    pub use anchor_attribute_error::*;
    pub use borsh;
    pub use error::*;
    pub use thiserror;

    #[cfg(feature = "event-cpi")]
    pub use super::{emit_cpi, event_cpi};

    #[cfg(feature = "idl-build")]
    pub use super::idl::IdlBuild;

    #[cfg(feature = "interface-instructions")]
    pub use super::interface;

    #[cfg(feature = "lazy-account")]
    pub use super::accounts::lazy_account::LazyAccount;
}

/// Internal module used by macros and unstable apis.
#[doc(hidden)]
pub mod __private {
    pub use anchor_attribute_account::ZeroCopyAccessor;
    pub use base64;
    pub use bytemuck;

    pub use crate::{bpf_writer::BpfWriter, common::is_closed};

    use crate::solana_program::pubkey::Pubkey;

    // Used to calculate the maximum between two expressions.
    // It is necessary for the calculation of the enum space.
    #[doc(hidden)]
    pub const fn max(a: usize, b: usize) -> usize {
        [a, b][(a < b) as usize]
    }

    // Very experimental trait.
    #[doc(hidden)]
    pub trait ZeroCopyAccessor<Ty> {
        fn get(&self) -> Ty;
        fn set(input: &Ty) -> Self;
    }

    #[doc(hidden)]
    impl ZeroCopyAccessor<Pubkey> for [u8; 32] {
        fn get(&self) -> Pubkey {
            Pubkey::from(*self)
        }
        fn set(input: &Pubkey) -> [u8; 32] {
            input.to_bytes()
        }
    }

    #[cfg(feature = "lazy-account")]
    pub use crate::lazy::Lazy;
    #[cfg(feature = "lazy-account")]
    pub use anchor_derive_serde::Lazy;
}

/// Ensures a condition is true, otherwise returns with the given error.
/// Use this with or without a custom error type.
///
/// # Example
/// ```ignore
/// // Instruction function
/// pub fn set_data(ctx: Context<SetData>, data: u64) -> Result<()> {
///     require!(ctx.accounts.data.mutation_allowed, MyError::MutationForbidden);
///     ctx.accounts.data.data = data;
///     Ok(())
/// }
///
/// // An enum for custom error codes
/// #[error_code]
/// pub enum MyError {
///     MutationForbidden
/// }
///
/// // An account definition
/// #[account]
/// #[derive(Default)]
/// pub struct MyData {
///     mutation_allowed: bool,
///     data: u64
/// }
///
/// // An account validation struct
/// #[derive(Accounts)]
/// pub struct SetData<'info> {
///     #[account(mut)]
///     pub data: Account<'info, MyData>
/// }
/// ```
#[macro_export]
macro_rules! require {
    ($invariant:expr, $error:tt $(,)?) => {
        if !($invariant) {
            return Err(anchor_lang::error!($crate::ErrorCode::$error));
        }
    };
    ($invariant:expr, $error:expr $(,)?) => {
        if !($invariant) {
            return Err(anchor_lang::error!($error));
        }
    };
}

/// Ensures two NON-PUBKEY values are equal.
///
/// Use [require_keys_eq](crate::prelude::require_keys_eq)
/// to compare two pubkeys.
///
/// Can be used with or without a custom error code.
///
/// # Example
/// ```rust,ignore
/// pub fn set_data(ctx: Context<SetData>, data: u64) -> Result<()> {
///     require_eq!(ctx.accounts.data.data, 0);
///     ctx.accounts.data.data = data;
///     Ok(())
/// }
/// ```
#[macro_export]
macro_rules! require_eq {
    ($value1: expr, $value2: expr, $error_code:expr $(,)?) => {
        if $value1 != $value2 {
            return Err(error!($error_code).with_values(($value1, $value2)));
        }
    };
    ($value1: expr, $value2: expr $(,)?) => {
        if $value1 != $value2 {
            return Err(error!(anchor_lang::error::ErrorCode::RequireEqViolated)
                .with_values(($value1, $value2)));
        }
    };
}

/// Ensures two NON-PUBKEY values are not equal.
///
/// Use [require_keys_neq](crate::prelude::require_keys_neq)
/// to compare two pubkeys.
///
/// Can be used with or without a custom error code.
///
/// # Example
/// ```rust,ignore
/// pub fn set_data(ctx: Context<SetData>, data: u64) -> Result<()> {
///     require_neq!(ctx.accounts.data.data, 0);
///     ctx.accounts.data.data = data;
///     Ok(());
/// }
/// ```
#[macro_export]
macro_rules! require_neq {
    ($value1: expr, $value2: expr, $error_code: expr $(,)?) => {
        if $value1 == $value2 {
            return Err(error!($error_code).with_values(($value1, $value2)));
        }
    };
    ($value1: expr, $value2: expr $(,)?) => {
        if $value1 == $value2 {
            return Err(error!(anchor_lang::error::ErrorCode::RequireNeqViolated)
                .with_values(($value1, $value2)));
        }
    };
}

/// Ensures two pubkeys values are equal.
///
/// Use [require_eq](crate::prelude::require_eq)
/// to compare two non-pubkey values.
///
/// Can be used with or without a custom error code.
///
/// # Example
/// ```rust,ignore
/// pub fn set_data(ctx: Context<SetData>, data: u64) -> Result<()> {
///     require_keys_eq!(ctx.accounts.data.authority.key(), ctx.accounts.authority.key());
///     ctx.accounts.data.data = data;
///     Ok(())
/// }
/// ```
#[macro_export]
macro_rules! require_keys_eq {
    ($value1: expr, $value2: expr, $error_code:expr $(,)?) => {
        if $value1 != $value2 {
            return Err(error!($error_code).with_pubkeys(($value1, $value2)));
        }
    };
    ($value1: expr, $value2: expr $(,)?) => {
        if $value1 != $value2 {
            return Err(error!(anchor_lang::error::ErrorCode::RequireKeysEqViolated)
                .with_pubkeys(($value1, $value2)));
        }
    };
}

/// Ensures two pubkeys are not equal.
///
/// Use [require_neq](crate::prelude::require_neq)
/// to compare two non-pubkey values.
///
/// Can be used with or without a custom error code.
///
/// # Example
/// ```rust,ignore
/// pub fn set_data(ctx: Context<SetData>, data: u64) -> Result<()> {
///     require_keys_neq!(ctx.accounts.data.authority.key(), ctx.accounts.other.key());
///     ctx.accounts.data.data = data;
///     Ok(())
/// }
/// ```
#[macro_export]
macro_rules! require_keys_neq {
    ($value1: expr, $value2: expr, $error_code: expr $(,)?) => {
        if $value1 == $value2 {
            return Err(error!($error_code).with_pubkeys(($value1, $value2)));
        }
    };
    ($value1: expr, $value2: expr $(,)?) => {
        if $value1 == $value2 {
            return Err(
                error!(anchor_lang::error::ErrorCode::RequireKeysNeqViolated)
                    .with_pubkeys(($value1, $value2)),
            );
        }
    };
}

/// Ensures the first NON-PUBKEY value is greater than the second
/// NON-PUBKEY value.
///
/// To include an equality check, use [require_gte](crate::require_gte).
///
/// Can be used with or without a custom error code.
///
/// # Example
/// ```rust,ignore
/// pub fn set_data(ctx: Context<SetData>, data: u64) -> Result<()> {
///     require_gt!(ctx.accounts.data.data, 0);
///     ctx.accounts.data.data = data;
///     Ok(());
/// }
/// ```
#[macro_export]
macro_rules! require_gt {
    ($value1: expr, $value2: expr, $error_code: expr $(,)?) => {
        if $value1 <= $value2 {
            return Err(error!($error_code).with_values(($value1, $value2)));
        }
    };
    ($value1: expr, $value2: expr $(,)?) => {
        if $value1 <= $value2 {
            return Err(error!(anchor_lang::error::ErrorCode::RequireGtViolated)
                .with_values(($value1, $value2)));
        }
    };
}

/// Ensures the first NON-PUBKEY value is greater than or equal
/// to the second NON-PUBKEY value.
///
/// Can be used with or without a custom error code.
///
/// # Example
/// ```rust,ignore
/// pub fn set_data(ctx: Context<SetData>, data: u64) -> Result<()> {
///     require_gte!(ctx.accounts.data.data, 1);
///     ctx.accounts.data.data = data;
///     Ok(());
/// }
/// ```
#[macro_export]
macro_rules! require_gte {
    ($value1: expr, $value2: expr, $error_code: expr $(,)?) => {
        if $value1 < $value2 {
            return Err(error!($error_code).with_values(($value1, $value2)));
        }
    };
    ($value1: expr, $value2: expr $(,)?) => {
        if $value1 < $value2 {
            return Err(error!(anchor_lang::error::ErrorCode::RequireGteViolated)
                .with_values(($value1, $value2)));
        }
    };
}

/// Returns with the given error.
/// Use this with a custom error type.
///
/// # Example
/// ```ignore
/// // Instruction function
/// pub fn example(ctx: Context<Example>) -> Result<()> {
///     err!(MyError::SomeError)
/// }
///
/// // An enum for custom error codes
/// #[error_code]
/// pub enum MyError {
///     SomeError
/// }
/// ```
#[macro_export]
macro_rules! err {
    ($error:tt $(,)?) => {
        Err(anchor_lang::error!($crate::ErrorCode::$error))
    };
    ($error:expr $(,)?) => {
        Err(anchor_lang::error!($error))
    };
}

/// Creates a [`Source`](crate::error::Source)
#[macro_export]
macro_rules! source {
    () => {
        anchor_lang::error::Source {
            filename: file!(),
            line: line!(),
        }
    };
}
