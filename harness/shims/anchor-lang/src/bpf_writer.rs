use crate::solana_program::program_memory::sol_memcpy;
use std::cmp;
use std::io::{self, Write};

#[derive(Debug, Default)]
pub struct BpfWriter<T> {
    inner: T,
    pos: u64,
}

impl<T> BpfWriter<T> {
    pub fn new(inner: T) -> Self {
        Self { inner, pos: 0 }
    }
}

impl Write for BpfWriter<&mut [u8]> {
    fn write(&mut self, buf: &[u8]) -> io::Result<usize> {
        if self.pos >= self.inner.len() as u64 {
            return Ok(0);
        }

        let amt = cmp::min(
            self.inner.len().saturating_sub(self.pos as usize),
            buf.len(),
        );
        sol_memcpy(&mut self.inner[(self.pos as usize)..], buf, amt);
        self.pos += amt as u64;
        Ok(amt)
    }

    fn write_all(&mut self, buf: &[u8]) -> io::Result<()> {
        if self.write(buf)? == buf.len() {
            Ok(())
        } else {
            Err(io::Error::new(
                io::ErrorKind::WriteZero,
                "failed to write whole buffer",
            ))
        }
    }

    fn flush(&mut self) -> io::Result<()> {
        Ok(())
    }
}
