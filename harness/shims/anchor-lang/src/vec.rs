use crate::solana_program::account_info::AccountInfo;
use crate::solana_program::instruction::AccountMeta;
use crate::solana_program::pubkey::Pubkey;
use crate::{Accounts, Result, ToAccountInfos, ToAccountMetas};
use std::collections::BTreeSet;

impl<'info, T: ToAccountInfos<'info>> ToAccountInfos<'info> for Vec<T> {
    fn to_account_infos(&self) -> Vec<AccountInfo<'info>> {
        self.iter()
            .flat_map(|item| item.to_account_infos())
            .collect()
    }
}

impl<T: ToAccountMetas> ToAccountMetas for Vec<T> {
    fn to_account_metas(&self, is_signer: Option<bool>) -> Vec<AccountMeta> {
        self.iter()
            .flat_map(|item| (*item).to_account_metas(is_signer))
            .collect()
    }
}

impl<'info, B, T: Accounts<'info, B>> Accounts<'info, B> for Vec<T> {
    fn try_accounts(
        program_id: &Pubkey,
        accounts: &mut &'info [AccountInfo<'info>],
        ix_data: &[u8],
        bumps: &mut B,
        reallocs: &mut BTreeSet<Pubkey>,
    ) -> Result<Self> {
        let mut vec: Vec<T> = Vec::new();
        T::try_accounts(program_id, accounts, ix_data, bumps, reallocs)
            .map(|item| vec.push(item))?;
        Ok(vec)
    }
}

#[cfg(test)]
mod tests {
    use crate::solana_program::clock::Epoch;
    use crate::solana_program::pubkey::Pubkey;

    use super::*;

    #[derive(Accounts)]
    pub struct Test<'info> {
        #[account(signer)]
        test: AccountInfo<'info>,
    }

    #[test]
    fn test_accounts_trait_for_vec() {
        let program_id = Pubkey::default();

        let key = Pubkey::default();
        let mut lamports1 = 0;
        let mut data1 = vec![0; 10];
        let owner = Pubkey::default();
        let account1 = AccountInfo::new(
            &key,
            true,
            true,
            &mut lamports1,
            &mut data1,
            &owner,
            false,
            Epoch::default(),
        );

        let mut lamports2 = 0;
        let mut data2 = vec![0; 10];
        let account2 = AccountInfo::new(
            &key,
            true,
            true,
            &mut lamports2,
            &mut data2,
            &owner,
            false,
            Epoch::default(),
        );
        let mut bumps = TestBumps::default();
        let mut reallocs = std::collections::BTreeSet::new();
        let mut accounts = &[account1, account2][..];
        let parsed_accounts =
            Vec::<Test>::try_accounts(&program_id, &mut accounts, &[], &mut bumps, &mut reallocs)
                .unwrap();

        assert_eq!(accounts.len(), parsed_accounts.len());
    }

    #[test]
    #[should_panic]
    fn test_accounts_trait_for_vec_empty() {
        let program_id = Pubkey::default();
        let mut bumps = TestBumps::default();
        let mut reallocs = std::collections::BTreeSet::new();
        let mut accounts = &[][..];
        Vec::<Test>::try_accounts(&program_id, &mut accounts, &[], &mut bumps, &mut reallocs)
            .unwrap();
    }
}
