// Sha256(anchor:event)[..8]
pub const EVENT_IX_TAG: u64 = 0x1d9acb512ea545e4;
pub const EVENT_IX_TAG_LE: &[u8] = EVENT_IX_TAG.to_le_bytes().as_slice();
