use crate::solana_program::{program_error::ProgramError, pubkey::Pubkey};
use anchor_lang::error_code;
use borsh::maybestd::io::Error as BorshIoError;
use std::fmt::{Debug, Display};
use std::num::TryFromIntError;

/// The starting point for user defined error codes.
pub const ERROR_CODE_OFFSET: u32 = 6000;

/// Error codes that can be returned by internal framework code.
///
/// - &gt;= 100 Instruction error codes
/// - &gt;= 1000 IDL error codes
/// - &gt;= 2000 constraint error codes
/// - &gt;= 3000 account error codes
/// - &gt;= 4100 misc error codes
/// - = 5000 deprecated error code
///
/// The starting point for user-defined errors is defined
/// by the [ERROR_CODE_OFFSET](crate::error::ERROR_CODE_OFFSET).
#[error_code(offset = 0)]
pub enum ErrorCode {
    // Instructions
    /// 100 - Instruction discriminator not provided
    #[msg("Instruction discriminator not provided")]
    InstructionMissing = 100,
    /// 101 - Fallback functions are not supported
    #[msg("Fallback functions are not supported")]
    InstructionFallbackNotFound,
    /// 102 - The program could not deserialize the given instruction
    #[msg("The program could not deserialize the given instruction")]
    InstructionDidNotDeserialize,
    /// 103 - The program could not serialize the given instruction
    #[msg("The program could not serialize the given instruction")]
    InstructionDidNotSerialize,

    // IDL instructions
    /// 1000 - The program was compiled without idl instructions
    #[msg("The program was compiled without idl instructions")]
    IdlInstructionStub = 1000,
    /// 1001 - Invalid program given to the IDL instruction
    #[msg("Invalid program given to the IDL instruction")]
    IdlInstructionInvalidProgram,
    /// 1002 - IDL Account must be empty in order to resize
    #[msg("IDL account must be empty in order to resize, try closing first")]
    IdlAccountNotEmpty,

    // Event instructions
    /// 1500 - The program was compiled without `event-cpi` feature
    #[msg("The program was compiled without `event-cpi` feature")]
    EventInstructionStub = 1500,

    // Constraints
    /// 2000 - A mut constraint was violated
    #[msg("A mut constraint was violated")]
    ConstraintMut = 2000,
    /// 2001 - A has one constraint was violated
    #[msg("A has one constraint was violated")]
    ConstraintHasOne,
    /// 2002 - A signer constraint was violated
    #[msg("A signer constraint was violated")]
    ConstraintSigner,
    /// 2003 - A raw constraint was violated
    #[msg("A raw constraint was violated")]
    ConstraintRaw,
    /// 2004 - An owner constraint was violated
    #[msg("An owner constraint was violated")]
    ConstraintOwner,
    /// 2005 - A rent exemption constraint was violated
    #[msg("A rent exemption constraint was violated")]
    ConstraintRentExempt,
    /// 2006 - A seeds constraint was violated
    #[msg("A seeds constraint was violated")]
    ConstraintSeeds,
    /// 2007 - An executable constraint was violated
    #[msg("An executable constraint was violated")]
    ConstraintExecutable,
    /// 2008 - Deprecated Error, feel free to replace with something else
    #[msg("Deprecated Error, feel free to replace with something else")]
    ConstraintState,
    /// 2009 - An associated constraint was violated
    #[msg("An associated constraint was violated")]
    ConstraintAssociated,
    /// 2010 - An associated init constraint was violated
    #[msg("An associated init constraint was violated")]
    ConstraintAssociatedInit,
    /// 2011 - A close constraint was violated
    #[msg("A close constraint was violated")]
    ConstraintClose,
    /// 2012 - An address constraint was violated
    #[msg("An address constraint was violated")]
    ConstraintAddress,
    /// 2013 - Expected zero account discriminant
    #[msg("Expected zero account discriminant")]
    ConstraintZero,
    /// 2014 - A token mint constraint was violated
    #[msg("A token mint constraint was violated")]
    ConstraintTokenMint,
    /// 2015 - A token owner constraint was violated
    #[msg("A token owner constraint was violated")]
    ConstraintTokenOwner,
    /// The mint mint is intentional -> a mint authority for the mint.
    ///
    /// 2016 - A mint mint authority constraint was violated
    #[msg("A mint mint authority constraint was violated")]
    ConstraintMintMintAuthority,
    /// 2017 - A mint freeze authority constraint was violated
    #[msg("A mint freeze authority constraint was violated")]
    ConstraintMintFreezeAuthority,
    /// 2018 - A mint decimals constraint was violated
    #[msg("A mint decimals constraint was violated")]
    ConstraintMintDecimals,
    /// 2019 - A space constraint was violated
    #[msg("A space constraint was violated")]
    ConstraintSpace,
    /// 2020 - A required account for the constraint is None
    #[msg("A required account for the constraint is None")]
    ConstraintAccountIsNone,
    /// The token token is intentional -> a token program for the token account.
    ///
    /// 2021 - A token account token program constraint was violated
    #[msg("A token account token program constraint was violated")]
    ConstraintTokenTokenProgram,
    /// 2022 - A mint token program constraint was violated
    #[msg("A mint token program constraint was violated")]
    ConstraintMintTokenProgram,
    /// 2023 - A mint token program constraint was violated
    #[msg("An associated token account token program constraint was violated")]
    ConstraintAssociatedTokenTokenProgram,
    /// Extension constraints
    ///
    /// 2024 - A group pointer extension constraint was violated
    #[msg("A group pointer extension constraint was violated")]
    ConstraintMintGroupPointerExtension,
    /// 2025 - A group pointer extension authority constraint was violated
    #[msg("A group pointer extension authority constraint was violated")]
    ConstraintMintGroupPointerExtensionAuthority,
    /// 2026 - A group pointer extension group address constraint was violated
    #[msg("A group pointer extension group address constraint was violated")]
    ConstraintMintGroupPointerExtensionGroupAddress,
    /// 2027 - A group member pointer extension constraint was violated
    #[msg("A group member pointer extension constraint was violated")]
    ConstraintMintGroupMemberPointerExtension,
    /// 2028 - A group member pointer extension authority constraint was violated
    #[msg("A group member pointer extension authority constraint was violated")]
    ConstraintMintGroupMemberPointerExtensionAuthority,
    /// 2029 - A group member pointer extension member address constraint was violated
    #[msg("A group member pointer extension group address constraint was violated")]
    ConstraintMintGroupMemberPointerExtensionMemberAddress,
    /// 2030 - A metadata pointer extension constraint was violated
    #[msg("A metadata pointer extension constraint was violated")]
    ConstraintMintMetadataPointerExtension,
    /// 2031 - A metadata pointer extension authority constraint was violated
    #[msg("A metadata pointer extension authority constraint was violated")]
    ConstraintMintMetadataPointerExtensionAuthority,
    /// 2032 - A metadata pointer extension metadata address constraint was violated
    #[msg("A metadata pointer extension metadata address constraint was violated")]
    ConstraintMintMetadataPointerExtensionMetadataAddress,
    /// 2033 - A close authority extension constraint was violated
    #[msg("A close authority constraint was violated")]
    ConstraintMintCloseAuthorityExtension,
    /// 2034 - A close authority extension authority constraint was violated
    #[msg("A close authority extension authority constraint was violated")]
    ConstraintMintCloseAuthorityExtensionAuthority,
    /// 2035 - A permanent delegate extension constraint was violated
    #[msg("A permanent delegate extension constraint was violated")]
    ConstraintMintPermanentDelegateExtension,
    /// 2036 - A permanent delegate extension authority constraint was violated
    #[msg("A permanent delegate extension delegate constraint was violated")]
    ConstraintMintPermanentDelegateExtensionDelegate,
    /// 2037 - A transfer hook extension constraint was violated
    #[msg("A transfer hook extension constraint was violated")]
    ConstraintMintTransferHookExtension,
    /// 2038 - A transfer hook extension authority constraint was violated
    #[msg("A transfer hook extension authority constraint was violated")]
    ConstraintMintTransferHookExtensionAuthority,
    /// 2039 - A transfer hook extension transfer hook program id constraint was violated
    #[msg("A transfer hook extension transfer hook program id constraint was violated")]
    ConstraintMintTransferHookExtensionProgramId,

    // Require
    /// 2500 - A require expression was violated
    #[msg("A require expression was violated")]
    RequireViolated = 2500,
    /// 2501 - A require_eq expression was violated
    #[msg("A require_eq expression was violated")]
    RequireEqViolated,
    /// 2502 - A require_keys_eq expression was violated
    #[msg("A require_keys_eq expression was violated")]
    RequireKeysEqViolated,
    /// 2503 - A require_neq expression was violated
    #[msg("A require_neq expression was violated")]
    RequireNeqViolated,
    /// 2504 - A require_keys_neq expression was violated
    #[msg("A require_keys_neq expression was violated")]
    RequireKeysNeqViolated,
    /// 2505 - A require_gt expression was violated
    #[msg("A require_gt expression was violated")]
    RequireGtViolated,
    /// 2506 - A require_gte expression was violated
    #[msg("A require_gte expression was violated")]
    RequireGteViolated,

    // Accounts.
    /// 3000 - The account discriminator was already set on this account
    #[msg("The account discriminator was already set on this account")]
    AccountDiscriminatorAlreadySet = 3000,
    /// 3001 - No discriminator was found on the account
    #[msg("No discriminator was found on the account")]
    AccountDiscriminatorNotFound,
    /// 3002 - Account discriminator did not match what was expected
    #[msg("Account discriminator did not match what was expected")]
    AccountDiscriminatorMismatch,
    /// 3003 - Failed to deserialize the account
    #[msg("Failed to deserialize the account")]
    AccountDidNotDeserialize,
    /// 3004 - Failed to serialize the account
    #[msg("Failed to serialize the account")]
    AccountDidNotSerialize,
    /// 3005 - Not enough account keys given to the instruction
    #[msg("Not enough account keys given to the instruction")]
    AccountNotEnoughKeys,
    /// 3006 - The given account is not mutable
    #[msg("The given account is not mutable")]
    AccountNotMutable,
    /// 3007 - The given account is owned by a different program than expected
    #[msg("The given account is owned by a different program than expected")]
    AccountOwnedByWrongProgram,
    /// 3008 - Program ID was not as expected
    #[msg("Program ID was not as expected")]
    InvalidProgramId,
    /// 3009 - Program account is not executable
    #[msg("Program account is not executable")]
    InvalidProgramExecutable,
    /// 3010 - The given account did not sign
    #[msg("The given account did not sign")]
    AccountNotSigner,
    /// 3011 - The given account is not owned by the system program
    #[msg("The given account is not owned by the system program")]
    AccountNotSystemOwned,
    /// 3012 - The program expected this account to be already initialized
    #[msg("The program expected this account to be already initialized")]
    AccountNotInitialized,
    /// 3013 - The given account is not a program data account
    #[msg("The given account is not a program data account")]
    AccountNotProgramData,
    /// 3014 - The given account is not the associated token account
    #[msg("The given account is not the associated token account")]
    AccountNotAssociatedTokenAccount,
    /// 3015 - The given public key does not match the required sysvar
    #[msg("The given public key does not match the required sysvar")]
    AccountSysvarMismatch,
    /// 3016 - The account reallocation exceeds the MAX_PERMITTED_DATA_INCREASE limit
    #[msg("The account reallocation exceeds the MAX_PERMITTED_DATA_INCREASE limit")]
    AccountReallocExceedsLimit,
    /// 3017 - The account was duplicated for more than one reallocation
    #[msg("The account was duplicated for more than one reallocation")]
    AccountDuplicateReallocs,

    // Miscellaneous
    /// 4100 - The declared program id does not match actual program id
    #[msg("The declared program id does not match the actual program id")]
    DeclaredProgramIdMismatch = 4100,
    /// 4101 - You cannot/should not initialize the payer account as a program account
    #[msg("You cannot/should not initialize the payer account as a program account")]
    TryingToInitPayerAsProgramAccount = 4101,
    /// 4102 - Invalid numeric conversion error
    #[msg("Error during numeric conversion")]
    InvalidNumericConversion = 4102,

    // Deprecated
    /// 5000 - The API being used is deprecated and should no longer be used
    #[msg("The API being used is deprecated and should no longer be used")]
    Deprecated = 5000,
}

#[derive(Debug, PartialEq, Eq)]
pub enum Error {
    AnchorError(Box<AnchorError>),
    ProgramError(Box<ProgramErrorWithOrigin>),
}

impl std::error::Error for Error {}

impl Display for Error {
    fn fmt(&self, f: &mut std::fmt::Formatter<'_>) -> std::fmt::Result {
        match self {
            Error::AnchorError(ae) => Display::fmt(&ae, f),
            Error::ProgramError(pe) => Display::fmt(&pe, f),
        }
    }
}

impl From<AnchorError> for Error {
    fn from(ae: AnchorError) -> Self {
        Self::AnchorError(Box::new(ae))
    }
}

impl From<ProgramError> for Error {
    fn from(program_error: ProgramError) -> Self {
        Self::ProgramError(Box::new(program_error.into()))
    }
}
impl From<BorshIoError> for Error {
    fn from(error: BorshIoError) -> Self {
        Error::ProgramError(Box::new(ProgramError::from(error).into()))
    }
}

impl From<ProgramErrorWithOrigin> for Error {
    fn from(pe: ProgramErrorWithOrigin) -> Self {
        Self::ProgramError(Box::new(pe))
    }
}

impl From<TryFromIntError> for Error {
    fn from(e: TryFromIntError) -> Self {
        Self::AnchorError(Box::new(AnchorError {
            error_name: ErrorCode::InvalidNumericConversion.name(),
            error_code_number: ErrorCode::InvalidNumericConversion.into(),
            error_msg: format!("{e}"),
            error_origin: None,
            compared_values: None,
        }))
    }
}

impl Error {
    pub fn log(&self) {
        match self {
            Error::ProgramError(program_error) => program_error.log(),
            Error::AnchorError(anchor_error) => anchor_error.log(),
        }
    }

    pub fn with_account_name(mut self, account_name: impl ToString) -> Self {
        match &mut self {
            Error::AnchorError(ae) => {
                ae.error_origin = Some(ErrorOrigin::AccountName(account_name.to_string()));
            }
            Error::ProgramError(pe) => {
                pe.error_origin = Some(ErrorOrigin::AccountName(account_name.to_string()));
            }
        };
        self
    }

    pub fn with_source(mut self, source: Source) -> Self {
        match &mut self {
            Error::AnchorError(ae) => {
                ae.error_origin = Some(ErrorOrigin::Source(source));
            }
            Error::ProgramError(pe) => {
                pe.error_origin = Some(ErrorOrigin::Source(source));
            }
        };
        self
    }

    pub fn with_pubkeys(mut self, pubkeys: (Pubkey, Pubkey)) -> Self {
        let pubkeys = Some(ComparedValues::Pubkeys((pubkeys.0, pubkeys.1)));
        match &mut self {
            Error::AnchorError(ae) => ae.compared_values = pubkeys,
            Error::ProgramError(pe) => pe.compared_values = pubkeys,
        };
        self
    }

    pub fn with_values(mut self, values: (impl ToString, impl ToString)) -> Self {
        match &mut self {
            Error::AnchorError(ae) => {
                ae.compared_values = Some(ComparedValues::Values((
                    values.0.to_string(),
                    values.1.to_string(),
                )))
            }
            Error::ProgramError(pe) => {
                pe.compared_values = Some(ComparedValues::Values((
                    values.0.to_string(),
                    values.1.to_string(),
                )))
            }
        };
        self
    }
}

#[derive(Debug)]
pub struct ProgramErrorWithOrigin {
    pub program_error: ProgramError,
    pub error_origin: Option<ErrorOrigin>,
    pub compared_values: Option<ComparedValues>,
}

// Two ProgramErrors are equal when they have the same error code
impl PartialEq for ProgramErrorWithOrigin {
    fn eq(&self, other: &Self) -> bool {
        self.program_error == other.program_error
    }
}
impl Eq for ProgramErrorWithOrigin {}

impl Display for ProgramErrorWithOrigin {
    fn fmt(&self, f: &mut std::fmt::Formatter<'_>) -> std::fmt::Result {
        Display::fmt(&self.program_error, f)
    }
}

impl ProgramErrorWithOrigin {
    pub fn log(&self) {
        match &self.error_origin {
            None => {
                anchor_lang::solana_program::msg!(
                    "ProgramError occurred. Error Code: {:?}. Error Number: {}. Error Message: {}.",
                    self.program_error,
                    u64::from(self.program_error.clone()),
                    self.program_error
                );
            }
            Some(ErrorOrigin::Source(source)) => {
                anchor_lang::solana_program::msg!(
                    "ProgramError thrown in {}:{}. Error Code: {:?}. Error Number: {}. Error Message: {}.",
                    source.filename,
                    source.line,
                    self.program_error,
                    u64::from(self.program_error.clone()),
                    self.program_error
                );
            }
            Some(ErrorOrigin::AccountName(account_name)) => {
                // using sol_log because msg! wrongly interprets 5 inputs as u64
                anchor_lang::solana_program::log::sol_log(&format!(
                    "ProgramError caused by account: {}. Error Code: {:?}. Error Number: {}. Error Message: {}.",
                    account_name,
                    self.program_error,
                    u64::from(self.program_error.clone()),
                    self.program_error
                ));
            }
        }
        match &self.compared_values {
            Some(ComparedValues::Pubkeys((left, right))) => {
                anchor_lang::solana_program::msg!("Left:");
                left.log();
                anchor_lang::solana_program::msg!("Right:");
                right.log();
            }
            Some(ComparedValues::Values((left, right))) => {
                anchor_lang::solana_program::msg!("Left: {}", left);
                anchor_lang::solana_program::msg!("Right: {}", right);
            }
            None => (),
        }
    }

    pub fn with_source(mut self, source: Source) -> Self {
        self.error_origin = Some(ErrorOrigin::Source(source));
        self
    }

    pub fn with_account_name(mut self, account_name: impl ToString) -> Self {
        self.error_origin = Some(ErrorOrigin::AccountName(account_name.to_string()));
        self
    }
}

impl From<ProgramError> for ProgramErrorWithOrigin {
    fn from(program_error: ProgramError) -> Self {
        Self {
            program_error,
            error_origin: None,
            compared_values: None,
        }
    }
}

#[derive(Debug)]
pub enum ComparedValues {
    Values((String, String)),
    Pubkeys((Pubkey, Pubkey)),
}

#[derive(Debug)]
pub enum ErrorOrigin {
    Source(Source),
    AccountName(String),
}

#[derive(Debug)]
pub struct AnchorError {
    pub error_name: String,
    pub error_code_number: u32,
    pub error_msg: String,
    pub error_origin: Option<ErrorOrigin>,
    pub compared_values: Option<ComparedValues>,
}

impl AnchorError {
    pub fn log(&self) {
        match &self.error_origin {
            None => {
                anchor_lang::solana_program::log::sol_log(&format!(
                    "AnchorError occurred. Error Code: {}. Error Number: {}. Error Message: {}.",
                    self.error_name, self.error_code_number, self.error_msg
                ));
            }
            Some(ErrorOrigin::Source(source)) => {
                anchor_lang::solana_program::msg!(
                    "AnchorError thrown in {}:{}. Error Code: {}. Error Number: {}. Error Message: {}.",
                    source.filename,
                    source.line,
                    self.error_name,
                    self.error_code_number,
                    self.error_msg
                );
            }
            Some(ErrorOrigin::AccountName(account_name)) => {
                anchor_lang::solana_program::log::sol_log(&format!(
                    "AnchorError caused by account: {}. Error Code: {}. Error Number: {}. Error Message: {}.",
                    account_name,
                    self.error_name,
                    self.error_code_number,
                    self.error_msg
                ));
            }
        }
        match &self.compared_values {
            Some(ComparedValues::Pubkeys((left, right))) => {
                anchor_lang::solana_program::msg!("Left:");
                left.log();
                anchor_lang::solana_program::msg!("Right:");
                right.log();
            }
            Some(ComparedValues::Values((left, right))) => {
                anchor_lang::solana_program::msg!("Left: {}", left);
                anchor_lang::solana_program::msg!("Right: {}", right);
            }
            None => (),
        }
    }

    pub fn with_source(mut self, source: Source) -> Self {
        self.error_origin = Some(ErrorOrigin::Source(source));
        self
    }

    pub fn with_account_name(mut self, account_name: impl ToString) -> Self {
        self.error_origin = Some(ErrorOrigin::AccountName(account_name.to_string()));
        self
    }
}

impl Display for AnchorError {
    fn fmt(&self, f: &mut std::fmt::Formatter<'_>) -> std::fmt::Result {
        Debug::fmt(&self, f)
    }
}

/// Two `AnchorError`s are equal when they have the same error code
impl PartialEq for AnchorError {
    fn eq(&self, other: &Self) -> bool {
        self.error_code_number == other.error_code_number
    }
}

impl Eq for AnchorError {}

impl std::convert::From<Error> for anchor_lang::solana_program::program_error::ProgramError {
    fn from(e: Error) -> anchor_lang::solana_program::program_error::ProgramError {
        match e {
            Error::AnchorError(error) => {
                anchor_lang::solana_program::program_error::ProgramError::Custom(
                    error.error_code_number,
                )
            }
            Error::ProgramError(program_error) => program_error.program_error,
        }
    }
}

#[derive(Debug)]
pub struct Source {
    pub filename: &'static str,
    pub line: u32,
}
