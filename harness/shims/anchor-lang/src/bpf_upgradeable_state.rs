use crate::error::ErrorCode;
use crate::solana_program::{
    bpf_loader_upgradeable::UpgradeableLoaderState, program_error::ProgramError, pubkey::Pubkey,
};
use crate::{AccountDeserialize, AccountSerialize, Owner, Result};

#[derive(Clone)]
pub struct ProgramData {
    pub slot: u64,
    pub upgrade_authority_address: Option<Pubkey>,
}

impl AccountDeserialize for ProgramData {
    fn try_deserialize(buf: &mut &[u8]) -> Result<Self> {
        ProgramData::try_deserialize_unchecked(buf)
    }

    fn try_deserialize_unchecked(buf: &mut &[u8]) -> Result<Self> {
        let program_state = AccountDeserialize::try_deserialize_unchecked(buf)?;

        match program_state {
            UpgradeableLoaderState::Uninitialized => Err(ErrorCode::AccountNotProgramData.into()),
            UpgradeableLoaderState::Buffer {
                authority_address: _,
            } => Err(ErrorCode::AccountNotProgramData.into()),
            UpgradeableLoaderState::Program {
                programdata_address: _,
            } => Err(ErrorCode::AccountNotProgramData.into()),
            UpgradeableLoaderState::ProgramData {
                slot,
                upgrade_authority_address,
            } => Ok(ProgramData {
                slot,
                upgrade_authority_address,
            }),
        }
    }
}

impl AccountSerialize for ProgramData {
    fn try_serialize<W: std::io::Write>(&self, _writer: &mut W) -> Result<()> {
        // no-op
        Ok(())
    }
}

impl Owner for ProgramData {
    fn owner() -> crate::solana_program::pubkey::Pubkey {
        anchor_lang::solana_program::bpf_loader_upgradeable::ID
    }
}

impl Owner for UpgradeableLoaderState {
    fn owner() -> Pubkey {
        anchor_lang::solana_program::bpf_loader_upgradeable::ID
    }
}

impl AccountSerialize for UpgradeableLoaderState {
    fn try_serialize<W: std::io::Write>(&self, _writer: &mut W) -> Result<()> {
        // no-op
        Ok(())
    }
}

impl AccountDeserialize for UpgradeableLoaderState {
    fn try_deserialize(buf: &mut &[u8]) -> Result<Self> {
        UpgradeableLoaderState::try_deserialize_unchecked(buf)
    }

    fn try_deserialize_unchecked(buf: &mut &[u8]) -> Result<Self> {
        bincode::deserialize(buf).map_err(|_| ProgramError::InvalidAccountData.into())
    }
}

#[cfg(feature = "idl-build")]
mod idl_build {
    use super::*;

    impl crate::IdlBuild for ProgramData {}
    impl crate::Discriminator for ProgramData {
        const DISCRIMINATOR: &'static [u8] = &[];
    }
}
