use crate::ToAccountMetas;
use solana_instruction::AccountMeta;

impl ToAccountMetas for AccountMeta {
    fn to_account_metas(&self, _is_signer: Option<bool>) -> Vec<AccountMeta> {
        vec![self.clone()]
    }
}
