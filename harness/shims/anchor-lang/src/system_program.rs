use crate::prelude::*;
use crate::solana_program::pubkey::Pubkey;

pub use crate::solana_program::system_program::ID;

#[derive(Debug, Clone)]
pub struct System;

impl anchor_lang::Id for System {
    fn id() -> Pubkey {
        ID
    }
}

pub fn advance_nonce_account<'info>(
    ctx: CpiContext<'_, '_, '_, 'info, AdvanceNonceAccount<'info>>,
) -> Result<()> {
    let ix = crate::solana_program::system_instruction::advance_nonce_account(
        ctx.accounts.nonce.key,
        ctx.accounts.authorized.key,
    );
    crate::solana_program::program::invoke_signed(
        &ix,
        &[
            ctx.accounts.nonce,
            ctx.accounts.recent_blockhashes,
            ctx.accounts.authorized,
        ],
        ctx.signer_seeds,
    )
    .map_err(Into::into)
}

#[derive(Accounts)]
pub struct AdvanceNonceAccount<'info> {
    pub nonce: AccountInfo<'info>,
    pub authorized: AccountInfo<'info>,
    pub recent_blockhashes: AccountInfo<'info>,
}

pub fn allocate<'info>(
    ctx: CpiContext<'_, '_, '_, 'info, Allocate<'info>>,
    space: u64,
) -> Result<()> {
    let ix = crate::solana_program::system_instruction::allocate(
        ctx.accounts.account_to_allocate.key,
        space,
    );
    crate::solana_program::program::invoke_signed(
        &ix,
        &[ctx.accounts.account_to_allocate],
        ctx.signer_seeds,
    )
    .map_err(Into::into)
}

#[derive(Accounts)]
pub struct Allocate<'info> {
    pub account_to_allocate: AccountInfo<'info>,
}

pub fn allocate_with_seed<'info>(
    ctx: CpiContext<'_, '_, '_, 'info, AllocateWithSeed<'info>>,
    seed: &str,
    space: u64,
    owner: &Pubkey,
) -> Result<()> {
    let ix = crate::solana_program::system_instruction::allocate_with_seed(
        ctx.accounts.account_to_allocate.key,
        ctx.accounts.base.key,
        seed,
        space,
        owner,
    );
    crate::solana_program::program::invoke_signed(
        &ix,
        &[ctx.accounts.account_to_allocate, ctx.accounts.base],
        ctx.signer_seeds,
    )
    .map_err(Into::into)
}

#[derive(Accounts)]
pub struct AllocateWithSeed<'info> {
    pub account_to_allocate: AccountInfo<'info>,
    pub base: AccountInfo<'info>,
}

pub fn assign<'info>(
    ctx: CpiContext<'_, '_, '_, 'info, Assign<'info>>,
    owner: &Pubkey,
) -> Result<()> {
    let ix = crate::solana_program::system_instruction::assign(
        ctx.accounts.account_to_assign.key,
        owner,
    );
    crate::solana_program::program::invoke_signed(
        &ix,
        &[ctx.accounts.account_to_assign],
        ctx.signer_seeds,
    )
    .map_err(Into::into)
}

#[derive(Accounts)]
pub struct Assign<'info> {
    pub account_to_assign: AccountInfo<'info>,
}

pub fn assign_with_seed<'info>(
    ctx: CpiContext<'_, '_, '_, 'info, AssignWithSeed<'info>>,
    seed: &str,
    owner: &Pubkey,
) -> Result<()> {
    let ix = crate::solana_program::system_instruction::assign_with_seed(
        ctx.accounts.account_to_assign.key,
        ctx.accounts.base.key,
        seed,
        owner,
    );
    crate::solana_program::program::invoke_signed(
        &ix,
        &[ctx.accounts.account_to_assign, ctx.accounts.base],
        ctx.signer_seeds,
    )
    .map_err(Into::into)
}

#[derive(Accounts)]
pub struct AssignWithSeed<'info> {
    pub account_to_assign: AccountInfo<'info>,
    pub base: AccountInfo<'info>,
}

pub fn authorize_nonce_account<'info>(
    ctx: CpiContext<'_, '_, '_, 'info, AuthorizeNonceAccount<'info>>,
    new_authority: &Pubkey,
) -> Result<()> {
    let ix = crate::solana_program::system_instruction::authorize_nonce_account(
        ctx.accounts.nonce.key,
        ctx.accounts.authorized.key,
        new_authority,
    );
    crate::solana_program::program::invoke_signed(
        &ix,
        &[ctx.accounts.nonce, ctx.accounts.authorized],
        ctx.signer_seeds,
    )
    .map_err(Into::into)
}

#[derive(Accounts)]
pub struct AuthorizeNonceAccount<'info> {
    pub nonce: AccountInfo<'info>,
    pub authorized: AccountInfo<'info>,
}

pub fn create_account<'info>(
    ctx: CpiContext<'_, '_, '_, 'info, CreateAccount<'info>>,
    lamports: u64,
    space: u64,
    owner: &Pubkey,
) -> Result<()> {
    let ix = crate::solana_program::system_instruction::create_account(
        ctx.accounts.from.key,
        ctx.accounts.to.key,
        lamports,
        space,
        owner,
    );
    crate::solana_program::program::invoke_signed(
        &ix,
        &[ctx.accounts.from, ctx.accounts.to],
        ctx.signer_seeds,
    )
    .map_err(Into::into)
}

#[derive(Accounts)]
pub struct CreateAccount<'info> {
    pub from: AccountInfo<'info>,
    pub to: AccountInfo<'info>,
}

pub fn create_account_with_seed<'info>(
    ctx: CpiContext<'_, '_, '_, 'info, CreateAccountWithSeed<'info>>,
    seed: &str,
    lamports: u64,
    space: u64,
    owner: &Pubkey,
) -> Result<()> {
    let ix = crate::solana_program::system_instruction::create_account_with_seed(
        ctx.accounts.from.key,
        ctx.accounts.to.key,
        ctx.accounts.base.key,
        seed,
        lamports,
        space,
        owner,
    );
    crate::solana_program::program::invoke_signed(
        &ix,
        &[ctx.accounts.from, ctx.accounts.to, ctx.accounts.base],
        ctx.signer_seeds,
    )
    .map_err(Into::into)
}

#[derive(Accounts)]
pub struct CreateAccountWithSeed<'info> {
    pub from: AccountInfo<'info>,
    pub to: AccountInfo<'info>,
    pub base: AccountInfo<'info>,
}

pub fn create_nonce_account<'info>(
    ctx: CpiContext<'_, '_, '_, 'info, CreateNonceAccount<'info>>,
    lamports: u64,
    authority: &Pubkey,
) -> Result<()> {
    let ixs = crate::solana_program::system_instruction::create_nonce_account(
        ctx.accounts.from.key,
        ctx.accounts.nonce.key,
        authority,
        lamports,
    );
    crate::solana_program::program::invoke_signed(
        &ixs[0],
        &[ctx.accounts.from, ctx.accounts.nonce.clone()],
        ctx.signer_seeds,
    )?;

    crate::solana_program::program::invoke_signed(
        &ixs[1],
        &[
            ctx.accounts.nonce,
            ctx.accounts.recent_blockhashes,
            ctx.accounts.rent,
        ],
        ctx.signer_seeds,
    )
    .map_err(Into::into)
}

#[derive(Accounts)]
pub struct CreateNonceAccount<'info> {
    pub from: AccountInfo<'info>,
    pub nonce: AccountInfo<'info>,
    pub recent_blockhashes: AccountInfo<'info>,
    pub rent: AccountInfo<'info>,
}

pub fn create_nonce_account_with_seed<'info>(
    ctx: CpiContext<'_, '_, '_, 'info, CreateNonceAccountWithSeed<'info>>,
    lamports: u64,
    seed: &str,
    authority: &Pubkey,
) -> Result<()> {
    let ixs = crate::solana_program::system_instruction::create_nonce_account_with_seed(
        ctx.accounts.from.key,
        ctx.accounts.nonce.key,
        ctx.accounts.base.key,
        seed,
        authority,
        lamports,
    );
    crate::solana_program::program::invoke_signed(
        &ixs[0],
        &[
            ctx.accounts.from,
            ctx.accounts.nonce.clone(),
            ctx.accounts.base,
        ],
        ctx.signer_seeds,
    )?;

    crate::solana_program::program::invoke_signed(
        &ixs[1],
        &[
            ctx.accounts.nonce,
            ctx.accounts.recent_blockhashes,
            ctx.accounts.rent,
        ],
        ctx.signer_seeds,
    )
    .map_err(Into::into)
}

#[derive(Accounts)]
pub struct CreateNonceAccountWithSeed<'info> {
    pub from: AccountInfo<'info>,
    pub nonce: AccountInfo<'info>,
    pub base: AccountInfo<'info>,
    pub recent_blockhashes: AccountInfo<'info>,
    pub rent: AccountInfo<'info>,
}

pub fn transfer<'info>(
    ctx: CpiContext<'_, '_, '_, 'info, Transfer<'info>>,
    lamports: u64,
) -> Result<()> {
    let ix = crate::solana_program::system_instruction::transfer(
        ctx.accounts.from.key,
        ctx.accounts.to.key,
        lamports,
    );
    crate::solana_program::program::invoke_signed(
        &ix,
        &[ctx.accounts.from, ctx.accounts.to],
        ctx.signer_seeds,
    )
    .map_err(Into::into)
}

#[derive(Accounts)]
pub struct Transfer<'info> {
    pub from: AccountInfo<'info>,
    pub to: AccountInfo<'info>,
}

pub fn transfer_with_seed<'info>(
    ctx: CpiContext<'_, '_, '_, 'info, TransferWithSeed<'info>>,
    from_seed: String,
    from_owner: &Pubkey,
    lamports: u64,
) -> Result<()> {
    let ix = crate::solana_program::system_instruction::transfer_with_seed(
        ctx.accounts.from.key,
        ctx.accounts.base.key,
        from_seed,
        from_owner,
        ctx.accounts.to.key,
        lamports,
    );
    crate::solana_program::program::invoke_signed(
        &ix,
        &[ctx.accounts.from, ctx.accounts.base, ctx.accounts.to],
        ctx.signer_seeds,
    )
    .map_err(Into::into)
}

#[derive(Accounts)]
pub struct TransferWithSeed<'info> {
    pub from: AccountInfo<'info>,
    pub base: AccountInfo<'info>,
    pub to: AccountInfo<'info>,
}

pub fn withdraw_nonce_account<'info>(
    ctx: CpiContext<'_, '_, '_, 'info, WithdrawNonceAccount<'info>>,
    lamports: u64,
) -> Result<()> {
    let ix = crate::solana_program::system_instruction::withdraw_nonce_account(
        ctx.accounts.nonce.key,
        ctx.accounts.authorized.key,
        ctx.accounts.to.key,
        lamports,
    );
    crate::solana_program::program::invoke_signed(
        &ix,
        &[
            ctx.accounts.nonce,
            ctx.accounts.to,
            ctx.accounts.recent_blockhashes,
            ctx.accounts.rent,
            ctx.accounts.authorized,
        ],
        ctx.signer_seeds,
    )
    .map_err(Into::into)
}

#[derive(Accounts)]
pub struct WithdrawNonceAccount<'info> {
    pub nonce: AccountInfo<'info>,
    pub to: AccountInfo<'info>,
    pub recent_blockhashes: AccountInfo<'info>,
    pub rent: AccountInfo<'info>,
    pub authorized: AccountInfo<'info>,
}
