use crate::prelude::{Id, System};
use crate::solana_program::account_info::AccountInfo;
use crate::solana_program::system_program;
use crate::Result;

pub fn close<'info>(info: AccountInfo<'info>, sol_destination: AccountInfo<'info>) -> Result<()> {
    // Transfer tokens from the account to the sol_destination.
    let dest_starting_lamports = sol_destination.lamports();
    **sol_destination.lamports.borrow_mut() =
        dest_starting_lamports.checked_add(info.lamports()).unwrap();
    **info.lamports.borrow_mut() = 0;

    info.assign(&system_program::ID);
    info.resize(0).map_err(Into::into)
}

pub fn is_closed(info: &AccountInfo) -> bool {
    info.owner == &System::id() && info.data_is_empty()
}
