//! VERIF SHIM. The real `ethnum` crate is not available offline. This crate provides the subset of
//! `ethnum::U256` used by `orca_whirlpools_core`, with ethnum's documented semantics:
//!  * `+ - *` panic on overflow when debug assertions are on and wrap otherwise (like primitives),
//!  * `<< >>` by >= 256 panic in debug / mask the shift amount in release,
//!  * `checked_shl/shr` only check the shift amount (bits shifted out are silently dropped),
//!  * `/ %` panic on a zero divisor, `as_u128/as_u64` truncate, `TryFrom` fails when out of range.
#![allow(clippy::all)]
use core::cmp::Ordering;
use core::ops::*;

mod inner {
    uint::construct_uint! { pub struct U(4); }
}
use inner::U;

#[allow(non_camel_case_types)]
#[derive(Clone, Copy, PartialEq, Eq, Hash, Default)]
pub struct U256(U);

#[derive(Debug, Clone, Copy, PartialEq, Eq)]
pub struct TryFromIntError(());

impl U256 {
    pub const ZERO: U256 = U256(U([0, 0, 0, 0]));
    pub const MIN: U256 = U256(U([0, 0, 0, 0]));
    pub const ONE: U256 = U256(U([1, 0, 0, 0]));
    pub const MAX: U256 = U256(U([u64::MAX; 4]));
    pub const fn new(v: u128) -> Self { U256(U([v as u64, (v >> 64) as u64, 0, 0])) }
    pub fn from_words(hi: u128, lo: u128) -> Self { U256(U([lo as u64, (lo >> 64) as u64, hi as u64, (hi >> 64) as u64])) }
    pub fn into_words(self) -> (u128, u128) {
        let w = (self.0).0;
        (((w[3] as u128) << 64) | w[2] as u128, ((w[1] as u128) << 64) | w[0] as u128)
    }
    pub fn as_u128(self) -> u128 { self.into_words().1 }
    pub fn as_u64(self) -> u64 { (self.0).0[0] }
    pub fn as_u32(self) -> u32 { (self.0).0[0] as u32 }
    pub fn as_u16(self) -> u16 { (self.0).0[0] as u16 }
    pub fn as_u8(self) -> u8 { (self.0).0[0] as u8 }
    pub fn checked_add(self, r: Self) -> Option<Self> { self.0.checked_add(r.0).map(U256) }
    pub fn checked_sub(self, r: Self) -> Option<Self> { self.0.checked_sub(r.0).map(U256) }
    pub fn checked_mul(self, r: Self) -> Option<Self> { self.0.checked_mul(r.0).map(U256) }
    pub fn checked_div(self, r: Self) -> Option<Self> { if r.0.is_zero() { None } else { Some(U256(self.0 / r.0)) } }
    pub fn checked_rem(self, r: Self) -> Option<Self> { if r.0.is_zero() { None } else { Some(U256(self.0 % r.0)) } }
    pub fn wrapping_add(self, r: Self) -> Self { U256(self.0.overflowing_add(r.0).0) }
    pub fn wrapping_sub(self, r: Self) -> Self { U256(self.0.overflowing_sub(r.0).0) }
    pub fn wrapping_mul(self, r: Self) -> Self { U256(self.0.overflowing_mul(r.0).0) }
    pub fn checked_shl(self, r: u32) -> Option<Self> { if r > 255 { None } else { Some(U256(self.0 << (r as usize))) } }
    pub fn checked_shr(self, r: u32) -> Option<Self> { if r > 255 { None } else { Some(U256(self.0 >> (r as usize))) } }
    pub fn leading_zeros(self) -> u32 { self.0.leading_zeros() }
    pub fn min(self, o: Self) -> Self { if self <= o { self } else { o } }
    pub fn max(self, o: Self) -> Self { if self >= o { self } else { o } }
}

macro_rules! from_prim { ($($t:ty),*) => {$(
    impl From<$t> for U256 { fn from(v: $t) -> Self { U256::new(v as u128) } }
    impl TryFrom<U256> for $t {
        type Error = TryFromIntError;
        fn try_from(v: U256) -> Result<$t, TryFromIntError> {
            let (hi, lo) = v.into_words();
            if hi != 0 { return Err(TryFromIntError(())); }
            <$t>::try_from(lo).map_err(|_| TryFromIntError(()))
        }
    }
)*}}
from_prim!(u8, u16, u32, u64, u128, usize);
impl From<bool> for U256 { fn from(v: bool) -> Self { U256::new(v as u128) } }

macro_rules! arith { ($tr:ident, $f:ident, $atr:ident, $af:ident, $chk:ident, $wrap:ident, $msg:expr) => {
    impl $tr for U256 { type Output = U256; fn $f(self, r: U256) -> U256 {
        if cfg!(debug_assertions) { self.$chk(r).expect($msg) } else { self.$wrap(r) } } }
    impl $tr<u128> for U256 { type Output = U256; fn $f(self, r: u128) -> U256 { $tr::$f(self, U256::new(r)) } }
    impl $atr for U256 { fn $af(&mut self, r: U256) { *self = $tr::$f(*self, r) } }
    impl $atr<u128> for U256 { fn $af(&mut self, r: u128) { *self = $tr::$f(*self, U256::new(r)) } }
}}
arith!(Add, add, AddAssign, add_assign, checked_add, wrapping_add, "attempt to add with overflow");
arith!(Sub, sub, SubAssign, sub_assign, checked_sub, wrapping_sub, "attempt to subtract with overflow");
arith!(Mul, mul, MulAssign, mul_assign, checked_mul, wrapping_mul, "attempt to multiply with overflow");
impl Div for U256 { type Output = U256; fn div(self, r: U256) -> U256 { self.checked_div(r).expect("attempt to divide by zero") } }
impl Rem for U256 { type Output = U256; fn rem(self, r: U256) -> U256 { self.checked_rem(r).expect("attempt to calculate the remainder with a divisor of zero") } }
impl Div<u128> for U256 { type Output = U256; fn div(self, r: u128) -> U256 { self / U256::new(r) } }
impl Rem<u128> for U256 { type Output = U256; fn rem(self, r: u128) -> U256 { self % U256::new(r) } }
impl DivAssign for U256 { fn div_assign(&mut self, r: U256) { *self = *self / r } }
impl RemAssign for U256 { fn rem_assign(&mut self, r: U256) { *self = *self % r } }
impl BitAnd for U256 { type Output = U256; fn bitand(self, r: U256) -> U256 { U256(self.0 & r.0) } }
impl BitOr for U256 { type Output = U256; fn bitor(self, r: U256) -> U256 { U256(self.0 | r.0) } }
impl BitXor for U256 { type Output = U256; fn bitxor(self, r: U256) -> U256 { U256(self.0 ^ r.0) } }
impl BitAnd<u128> for U256 { type Output = U256; fn bitand(self, r: u128) -> U256 { self & U256::new(r) } }
impl BitOr<u128> for U256 { type Output = U256; fn bitor(self, r: u128) -> U256 { self | U256::new(r) } }
impl BitAndAssign for U256 { fn bitand_assign(&mut self, r: U256) { *self = *self & r } }
impl BitOrAssign for U256 { fn bitor_assign(&mut self, r: U256) { *self = *self | r } }
impl Not for U256 { type Output = U256; fn not(self) -> U256 { U256(!self.0) } }

macro_rules! shifts { ($($t:ty),*) => {$(
    impl Shl<$t> for U256 { type Output = U256; fn shl(self, r: $t) -> U256 {
        let r = r as i128;
        if cfg!(debug_assertions) { assert!(r >= 0 && r < 256, "attempt to shift left with overflow"); }
        U256(self.0 << ((r & 255) as usize)) } }
    impl Shr<$t> for U256 { type Output = U256; fn shr(self, r: $t) -> U256 {
        let r = r as i128;
        if cfg!(debug_assertions) { assert!(r >= 0 && r < 256, "attempt to shift right with overflow"); }
        U256(self.0 >> ((r & 255) as usize)) } }
    impl ShlAssign<$t> for U256 { fn shl_assign(&mut self, r: $t) { *self = *self << r } }
    impl ShrAssign<$t> for U256 { fn shr_assign(&mut self, r: $t) { *self = *self >> r } }
)*}}
shifts!(u8, u16, u32, u64, u128, usize, i8, i16, i32, i64, i128, isize);

impl PartialOrd for U256 { fn partial_cmp(&self, o: &U256) -> Option<Ordering> { Some(self.cmp(o)) } }
impl Ord for U256 { fn cmp(&self, o: &U256) -> Ordering { self.0.cmp(&o.0) } }
impl PartialEq<u128> for U256 { fn eq(&self, o: &u128) -> bool { *self == U256::new(*o) } }
impl PartialOrd<u128> for U256 { fn partial_cmp(&self, o: &u128) -> Option<Ordering> { Some(self.cmp(&U256::new(*o))) } }
impl PartialEq<U256> for u128 { fn eq(&self, o: &U256) -> bool { U256::new(*self) == *o } }
impl PartialOrd<U256> for u128 { fn partial_cmp(&self, o: &U256) -> Option<Ordering> { Some(U256::new(*self).cmp(o)) } }
impl core::fmt::Debug for U256 { fn fmt(&self, f: &mut core::fmt::Formatter<'_>) -> core::fmt::Result { write!(f, "{}", self.0) } }
impl core::fmt::Display for U256 { fn fmt(&self, f: &mut core::fmt::Formatter<'_>) -> core::fmt::Result { write!(f, "{}", self.0) } }
