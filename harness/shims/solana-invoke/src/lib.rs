#![doc = include_str!("../README.md")]
#![allow(unexpected_cfgs)]

use solana_account_info::AccountInfo;
use solana_instruction::Instruction;
use solana_program_entrypoint::ProgramResult;

mod stable_instruction_borrowed;

pub fn invoke(instruction: &Instruction, account_infos: &[AccountInfo]) -> ProgramResult {
    invoke_signed(instruction, account_infos, &[])
}

pub fn invoke_unchecked(instruction: &Instruction, account_infos: &[AccountInfo]) -> ProgramResult {
    invoke_signed_unchecked(instruction, account_infos, &[])
}

pub fn invoke_signed(
    instruction: &Instruction,
    account_infos: &[AccountInfo],
    signers_seeds: &[&[&[u8]]],
) -> ProgramResult {
    // Check that the account RefCells are consistent with the request
    for account_meta in instruction.accounts.iter() {
        for account_info in account_infos.iter() {
            if account_meta.pubkey == *account_info.key {
                if account_meta.is_writable {
                    let _ = account_info.try_borrow_mut_lamports()?;
                    let _ = account_info.try_borrow_mut_data()?;
                } else {
                    let _ = account_info.try_borrow_lamports()?;
                    let _ = account_info.try_borrow_data()?;
                }
                break;
            }
        }
    }

    invoke_signed_unchecked(instruction, account_infos, signers_seeds)
}

#[cfg(target_os = "solana")]
use solana_define_syscall::definitions::sol_invoke_signed_rust;

#[cfg(not(target_os = "solana"))]
extern "Rust" {
    // VERIF SHIM: provided by the native runtime of the verification harness.
    fn verif_sol_invoke_signed(
        instruction: &Instruction,
        account_infos: &[AccountInfo],
        signers_seeds: &[&[&[u8]]],
    ) -> ProgramResult;
}

pub fn invoke_signed_unchecked(
    instruction: &Instruction,
    account_infos: &[AccountInfo],
    signers_seeds: &[&[&[u8]]],
) -> ProgramResult {
    #[cfg(not(target_os = "solana"))]
    {
        // VERIF SHIM: off-chain there is no syscall; hand the CPI to the native runtime.
        return unsafe { verif_sol_invoke_signed(instruction, account_infos, signers_seeds) };
    }
    #[cfg(target_os = "solana")]
    {
    use stable_instruction_borrowed::StableInstructionBorrowed;
    let stable = StableInstructionBorrowed::new(instruction);
    let instruction_addr = stable.instruction_addr();

    let result = unsafe {
        sol_invoke_signed_rust(
            instruction_addr,
            account_infos as *const _ as *const u8,
            account_infos.len() as u64,
            signers_seeds as *const _ as *const u8,
            signers_seeds.len() as u64,
        )
    };

    match result {
        solana_program_entrypoint::SUCCESS => Ok(()),
        _ => Err(result.into()),
    }
    }
}
