use std::{marker::PhantomData, mem::ManuallyDrop};

use solana_instruction::Instruction;
use solana_stable_layout::{stable_instruction::StableInstruction, stable_vec::StableVec};

/// Similarly to [`StableInstruction`], this type represents an instruction with a stable (`repr(C)` memory layout).
/// Unlike `StableInstruction`, it does not semantically own the buffers inside the instruction, and they will not be dropped
/// when the type is.
pub(crate) struct StableInstructionBorrowed<'ix> {
    /// A [`StableInstruction`] is constructed from a shared reference to an [`Instruction`] to ensure a valid memory layout.
    /// [`ManuallyDrop`] is used to ensure the borrowed data is not dropped when the type is.
    stabilized_instruction: ManuallyDrop<StableInstruction>,
    /// We don't actually need access to the original instruction, but we do need to ensure it is borrowed for as long as this
    /// type is accessible to ensure it is not moved/invalidated.
    _marker: PhantomData<&'ix Instruction>,
}

impl<'ix> StableInstructionBorrowed<'ix> {
    #[inline(always)]
    pub(crate) fn new(ix: &'ix Instruction) -> Self {
        let data = StableVecBorrowed::from(&ix.data);
        let accounts = StableVecBorrowed::from(&ix.accounts);
        // SAFETY:
        // We transmute between two `repr(C)` types with the same layout (and verify this) assumption
        // in `test_layout_matches`
        // We then immediately move our constructed `StableInstruction` into `ManuallyDrop` to prevent it
        // being dropped and freeing data we don't own.
        let fake_stable_ix = unsafe {
            ManuallyDrop::new(StableInstruction {
                accounts: core::mem::transmute::<StableVecBorrowed<_>, StableVec<_>>(accounts),
                data: core::mem::transmute::<StableVecBorrowed<_>, StableVec<_>>(data),
                program_id: ix.program_id,
            })
        };

        Self {
            stabilized_instruction: fake_stable_ix,
            _marker: PhantomData,
        }
    }

    pub(crate) fn instruction_addr(&self) -> *const u8 {
        &self.stabilized_instruction as *const ManuallyDrop<StableInstruction> as *const u8
    }
}

/// Similarly to [`StableVec`] this type represents a vector with a stable (`repr(C)` memory layout).
/// However, unlike `StableVec` it does not own its contents, instead borrowing the data immutably.
#[repr(C)]
struct StableVecBorrowed<'vec, T> {
    addr: u64,
    cap: u64,
    len: u64,
    _marker: PhantomData<&'vec T>,
}

impl<'a, T> From<&'a Vec<T>> for StableVecBorrowed<'a, T> {
    fn from(value: &'a Vec<T>) -> Self {
        Self {
            addr: value.as_ptr() as u64,
            cap: value.capacity() as u64,
            len: value.len() as u64,
            _marker: PhantomData,
        }
    }
}

#[cfg(test)]
mod tests {
    use super::*;

    #[test]
    pub fn test_layout_matches() {
        // This relies on the memory layout of `StableVec` and `StableVecBorrowed` to match as we transmute between them
        let vector: Vec<u8> = vec![1, 2, 3, 4];
        let borrowed = StableVecBorrowed::from(&vector);
        let StableVecBorrowed {
            addr: b_addr,
            cap: b_cap,
            len: b_len,
            ..
        } = &borrowed;
        let StableVec { addr, cap, len, .. } =
            unsafe { std::mem::transmute::<&StableVecBorrowed<u8>, &StableVec<u8>>(&borrowed) };
        assert_eq!(addr, b_addr, "Address field layout does not match");
        assert_eq!(cap, b_cap, "Capacity field layout does not match");
        assert_eq!(len, b_len, "Length field layout does not match");
    }
}
