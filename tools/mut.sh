#!/bin/bash
# usage: tools/mut.sh <file-relative-to-/repo> <python-regex-or-literal old> <new> <ID> [tier]
# Applies a one-off literal replacement (first occurrence, or all with ALL=1) to /repo, runs the check, restores the file.
set -u
f="/repo/$1"; old="$2"; new="$3"; id="$4"; tier="${5:-quick}"
cp "$f" /tmp/mut_backup.$$ || exit 2
python3 - "$f" "$old" "$new" <<'PY'
import sys,os
f,old,new=sys.argv[1:4]
s=open(f).read()
n=s.count(old)
if n==0: print("MUT: pattern not found"); sys.exit(3)
s=s.replace(old,new) if os.environ.get("ALL") else s.replace(old,new,1)
open(f,'w').write(s)
print(f"MUT: applied ({n} occurrence(s) present)")
PY
rc=$?
if [ $rc -eq 0 ]; then
  (cd /repo && git diff --stat | tail -1)
  /verif/check "$id" "$tier" 2>&1 | grep -E "VIOLATION|^OK|BUILD-FAILED|violation in|INCONCLUSIVE|KNOWN" | head -5
fi
cp /tmp/mut_backup.$$ "$f"; rm -f /tmp/mut_backup.$$
(cd /repo && git status --short | head -3)
