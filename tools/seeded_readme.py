#!/usr/bin/env python3
"""Regenerates /verif/seeded/README.md from the meta.json files."""
import json, os
root = '/verif/seeded'
rows = []
for d in sorted(os.listdir(root)):
    p = os.path.join(root, d, 'meta.json')
    if not os.path.exists(p):
        continue
    m = json.load(open(p))
    fr = m.get('framework_result', {})
    rows.append((d, m.get('breaks_property', m.get('property', '?')), m.get('summary', '').replace('\n', ' ')[:220], m.get('needs', '').replace('\n', ' ')[:200],
                 'caught' if fr.get('caught') else 'MISSED', fr.get('output', '').replace('\n', ' ')[:160], m.get('framework_history', '')))
out = ["# Seeded changes\n",
       "Each directory holds `patch.diff` (a change to orca-so/whirlpools that compiles and passes the pinned 654 tests), the author's demonstration (`demo/`),",
       "and `meta.json` (what it breaks, what it needs to manifest, what was run to confirm it, what the framework reported).  They were written by independent",
       "sub-agents that saw only the property text and a scratch worktree.  None of them is ever committed to /repo; to re-run: `tools/seed_eval.sh seeded/<dir>`.\n",
       "| directory | property | change | needs | quick check | first report | history |", "|---|---|---|---|---|---|---|"]
for r in rows:
    out.append("| " + " | ".join(x.replace('|', '/') for x in r) + " |")
open(os.path.join(root, 'README.md'), 'w').write("\n".join(out) + "\n")
print(len(rows), "seeded changes listed")
