#!/bin/bash
# usage: tools/seed_confirm.sh <worktree>   — confirms an agent's claims inside its own scratch worktree:
# patch applies on clean HEAD; workspace tests pass with the change; demo fails with it and passes without it.
set -u
wt="$1"; cd "$wt" || exit 2
export CARGO_NET_OFFLINE=true
git checkout -- . 2>/dev/null; rm -rf programs/whirlpool/tests
git apply --check SEED/patch.diff || { echo "RESULT patch_applies=false"; exit 1; }
git apply SEED/patch.diff
t=$(cargo test --workspace --offline 2>&1 | grep -E "^test result" | head -1)
echo "suite_with_change: $t"
mkdir -p programs/whirlpool/tests; cp SEED/demo/*.rs programs/whirlpool/tests/
feat=""; grep -q "verif" SEED/demo/*.rs && feat="--features verif"
demo_with=""; demo_without=""
for f in SEED/demo/*.rs; do n=$(basename "$f" .rs)
  r=$(cargo test -p whirlpool --offline $feat --test "$n" 2>&1 | grep -E "^test result" | tail -1); demo_with="$demo_with [$n: $r]"
done
git apply -R SEED/patch.diff
for f in SEED/demo/*.rs; do n=$(basename "$f" .rs)
  r=$(cargo test -p whirlpool --offline $feat --test "$n" 2>&1 | grep -E "^test result" | tail -1); demo_without="$demo_without [$n: $r]"
done
rm -rf programs/whirlpool/tests
echo "demo_with_change: $demo_with"
echo "demo_without_change: $demo_without"
