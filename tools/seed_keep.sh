#!/bin/bash
# usage: tools/seed_keep.sh <worktree> <dir-name> [round]
# Confirms an agent's change in its own scratch worktree (tools/seed_confirm.sh), and if the suite passes with the change, the
# demonstration fails with it and passes without it, keeps it as /verif/seeded/<dir-name>/ and removes the worktree.
set -u
wt="$1"; name="$2"; round="${3:-5}"
out=$(/verif/tools/seed_confirm.sh "$wt" 2>&1 | grep -E "^(suite_with_change|demo_with_change|demo_without_change|RESULT)")
echo "$out"
echo "$out" | grep -q "suite_with_change: test result: ok. 654 passed" || { echo "NOT KEPT: suite"; exit 1; }
echo "$out" | grep "demo_with_change" | grep -q "FAILED" || { echo "NOT KEPT: demo does not fail with the change"; exit 1; }
echo "$out" | grep "demo_without_change" | grep -q "FAILED" && { echo "NOT KEPT: demo fails without the change"; exit 1; }
echo "$out" | grep "demo_without_change" | grep -q "test result: ok" || { echo "NOT KEPT: demo did not run without the change"; exit 1; }
d="/verif/seeded/$name"; mkdir -p "$d"
cp "$wt/SEED/patch.diff" "$d/"; rm -rf "$d/demo"; cp -r "$wt/SEED/demo" "$d/demo"
python3 - "$wt/SEED/meta.json" "$d/meta.json" "$round" "$out" <<'PY'
import json,sys
m=json.load(open(sys.argv[1]))
m["breaks_property"]=m.get("property")
m["round"]=int(sys.argv[3])
m["origin"]="independent sub-agent (round %s) given only the property record and a scratch worktree" % sys.argv[3]
m["confirmed_by_framework_author"]={"how":"in the agent's scratch worktree: patch applies on clean HEAD; cargo test --workspace --offline with the change; demonstration copied to programs/whirlpool/tests and run with and without the change (tools/seed_confirm.sh)","result":sys.argv[4]}
json.dump(m,open(sys.argv[2],"w"),indent=1)
PY
git -C /repo worktree remove --force "$wt" && echo "KEPT $d (worktree removed)"
