#!/usr/bin/env python3
"""Regenerates /verif/health.json from the evidence files of a quick run on the unchanged tree: minimum rates (per 10,000 evaluations)
of non-trivial cases and of the positive-coverage counters of every sub-check, set at one fifth of the observed rate.  A run whose
rates fall below them says nothing about the property (the generator or the world builder is being refused by the program): the check
reports INCONCLUSIVE (exit 2), never OK."""
import json, glob, os, re
POS = re.compile(r'^(ops_ok|swaps_ok|dynamic_arrays|fixed_arrays|positions_opened|initialized_tick_crossings|instructions_with_passing_baseline|'
                 r'prefix_claims_checks|drain_replays|drain_instructions|swaps_checked|steps_checked|events_checked|liquidity_ops_checked|accepted_allowed|refused_excluded|'
                 r'increase_at_cost_ok|decrease_at_return_ok|by_amounts_ok|trade_records_compared|nontrivial_.*|cases_with_crossing|permissionless/executed|'
                 r'mutant/.*|substituted/.*|swap/agree.*|liquidity/(increase|decrease)_agree.*|equal/.*|opened/.*|agree_ok/.*|two_hop_ok/.*|reposition/at_bounds_ok|'
                 r'ok/.*|bundle_created/.*|fee_intermediate/thresholds_checked/.*|.*_agree_ok|.*/agree_ok)$')
out = {}
for f in sorted(glob.glob('/verif/evidence/C*.json')):
    e = json.load(open(f))
    if e.get('tier') != 'quick':
        continue
    pid = e['property_id']
    for sub, info in e['coverage']['sub_checks'].items():
        ev = info['evaluations']
        if ev < 100:
            continue
        mins = {}
        nt = info.get('nontrivial_evaluations', 0)
        if nt >= 50:
            mins['nontrivial_evaluations'] = round(nt * 10000 / ev / 5, 3)
        for k, v in e['coverage']['classes'].get(sub, {}).items():
            if POS.match(k) and v >= 200:
                mins['counter:' + k] = round(v * 10000 / ev / 5, 3)
        if mins:
            out.setdefault(pid, {})[sub] = mins
json.dump({'_format': 'minimum rates per 10,000 evaluations (one fifth of what a quick run on the unchanged tree produces); below them a run is INCONCLUSIVE', 'min_per_10k': out}, open('/verif/health.json', 'w'), indent=1, sort_keys=True)
print(sum(len(s) for p in out.values() for s in p.values()), 'thresholds')
