#!/usr/bin/env python3
"""Automated sensitivity campaign: one-token syntactic mutants of the files the properties are anchored in.

usage (inside a `vp run --with-repo` snapshot, never against /repo itself):
    python3 tools/mutate.py --repo $VP_RUN_REPO --verif $PWD --n 200 --seed 1 --out mutation.jsonl

For each sampled mutant: apply it to the scratch repository, rebuild the harness against it, run the quick checks of the
properties anchored in that file (stop at the first VIOLATION).  A mutant no check reports is then run against the repository's own
654 tests: if they fail it was never a realistic change; if they pass it is a SURVIVOR to be looked at by hand (equivalent mutant,
behaviour no property speaks about, or a gap).  Nothing here is a registered check; it measures the checks."""
import argparse, json, os, random, re, subprocess, sys, time, glob

OPS = [
    (r' < ', ' <= '), (r' <= ', ' < '), (r' > ', ' >= '), (r' >= ', ' > '), (r' == ', ' != '), (r' != ', ' == '),
    (r' && ', ' || '), (r' \|\| ', ' && '),
    (r'\btrue\b', 'false'), (r'\bfalse\b', 'true'),
    (r'checked_add', 'checked_sub'), (r'checked_sub', 'checked_add'), (r'wrapping_add', 'wrapping_sub'), (r'wrapping_sub', 'wrapping_add'),
    (r'saturating_sub', 'wrapping_sub'),
    (r' \+ 1\b', ' + 2'), (r' - 1\b', ' - 0'), (r'\.min\(', '.max('), (r'\.max\(', '.min('),
    (r'\bif a_to_b\b', 'if !a_to_b'), (r'\bif !a_to_b\b', 'if a_to_b'),
    (r'amount_specified_is_input', '!amount_specified_is_input'),
    (r'^(\s*)return Err\(.*\);\s*$', r'\1();'),
    (r'\.is_signer\(\)', '.is_writable()'),
    (r'liquidity_net', 'liquidity_net.wrapping_neg()'),
    (r'round_up', '!round_up'),
]
SKIP = re.compile(r'^\s*(//|#\[|use |pub use |const |pub const |msg!|assert|debug_assert|pub fn |fn |impl|pub struct|struct |pub enum|enum |type |mod |pub mod )')


def candidates(repo, rel):
    path = os.path.join(repo, rel)
    try:
        lines = open(path).read().split('\n')
    except Exception:
        return []
    out = []
    for i, line in enumerate(lines):
        if '#[cfg(test)]' in line:
            break
        if SKIP.match(line) or '//' in line.split('"')[0][:0]:
            continue
        code = line.split('//')[0]
        for k, (pat, rep) in enumerate(OPS):
            for m in re.finditer(pat, code):
                out.append((rel, i, k, m.start()))
    return out


def apply(repo, mut):
    rel, i, k, pos = mut
    path = os.path.join(repo, rel)
    lines = open(path).read().split('\n')
    pat, rep = OPS[k]
    line = lines[i]
    m = re.compile(pat).search(line, pos)
    if not m or m.start() != pos:
        return None
    new = line[:m.start()] + m.expand(rep) + line[m.end():]
    lines[i] = new
    open(path, 'w').write('\n'.join(lines))
    return line.strip(), new.strip()


def main():
    ap = argparse.ArgumentParser()
    ap.add_argument('--repo', required=True)
    ap.add_argument('--verif', required=True)
    ap.add_argument('--n', type=int, default=100)
    ap.add_argument('--seed', type=int, default=1)
    ap.add_argument('--out', default='mutation.jsonl')
    ap.add_argument('--only', default='')  # substring filter on file paths
    ap.add_argument('--broad', default='C01,C05,C08,C16,C18,C11')  # history-based checks run after the anchored ones
    a = ap.parse_args()
    if os.path.realpath(a.repo) == '/repo':
        sys.exit('refusing to mutate /repo itself')
    # harness must build against the scratch repository
    for f in ['harness/Cargo.toml', 'harness/fuzz/Cargo.toml']:
        p = os.path.join(a.verif, f)
        s = open(p).read()
        open(p, 'w').write(s.replace('"/repo/', '"' + a.repo.rstrip('/') + '/'))
    files = {}
    for l in open(os.path.join(a.verif, 'properties.jsonl')):
        p = json.loads(l)
        for f in p['anchors']['files']:
            full = os.path.join(a.repo, f)
            rels = [f] if f.endswith('.rs') else [os.path.relpath(x, a.repo) for x in glob.glob(full.rstrip('/') + '/**/*.rs', recursive=True)]
            for r in rels:
                if 'ts-sdk' in r or r.endswith('mod.rs') and 'tick_array' not in r:
                    continue
                files.setdefault(r, set()).add(p['id'])
    rng = random.Random(a.seed)
    per_file = {}
    for r in sorted(files):
        if a.only and a.only not in r:
            continue
        c = candidates(a.repo, r)
        rng.shuffle(c)
        if c:
            per_file[r] = c
    order = []
    names = sorted(per_file)
    rng.shuffle(names)
    while len(order) < a.n and any(per_file.values()):
        for r in names:
            if per_file[r] and len(order) < a.n:
                order.append(per_file[r].pop())
    env = dict(os.environ, CARGO_NET_OFFLINE='true', VERIF_WATCHDOG_S='300')
    out = open(a.out, 'a')
    for n, mut in enumerate(order):
        rel = mut[0]
        original = open(os.path.join(a.repo, rel)).read()
        ch = apply(a.repo, mut)
        if ch is None:
            open(os.path.join(a.repo, rel), 'w').write(original)
            continue
        rec = {'n': n, 'file': rel, 'line': mut[1] + 1, 'before': ch[0], 'after': ch[1], 'props': sorted(files[rel])}
        t0 = time.time()
        b = subprocess.run(['cargo', 'build', '--release', '-q'], cwd=os.path.join(a.verif, 'harness'), env=env, capture_output=True, text=True)
        if b.returncode != 0:
            rec['result'] = 'does_not_compile'
        else:
            rec['result'] = 'not_reported'
            rec['checks'] = {}
            # the anchored properties first, then the history-based checks that execute most instructions (a mutant of a handler often
            # breaks a property anchored elsewhere)
            broad = [x for x in a.broad.split(',') if x and x not in files[rel]] if rel.startswith('programs/whirlpool/src/') else []
            for pid in sorted(files[rel]) + broad:
                r = subprocess.run([os.path.join(a.verif, 'check'), pid, 'quick'], env=env, capture_output=True, text=True)
                lines = [l for l in r.stdout.splitlines() if l.startswith(('violation in', 'regression case', 'VIOLATION', 'INCONCLUSIVE'))]
                rec['checks'][pid] = r.returncode
                if r.returncode == 1:
                    rec['result'] = 'reported'
                    rec['by'] = pid
                    rec['message'] = (lines[0] if lines else '')[:300]
                    break
                if r.returncode == 2 and rec['result'] == 'not_reported':
                    # generator-health guard or watchdog: the run decided nothing and says so (never OK)
                    rec['result'] = 'inconclusive'
                    rec['by'] = pid
                    rec['message'] = (lines[0] if lines else '')[:300]
            if rec['result'] in ('not_reported', 'inconclusive'):
                t = subprocess.run(['cargo', 'test', '--workspace', '--offline'], cwd=a.repo, env=env, capture_output=True, text=True)
                res = [l for l in t.stdout.splitlines() if l.startswith('test result')]
                ok = t.returncode == 0 and any('654 passed' in l for l in res)
                rec['suite'] = 'passes' if ok else 'fails'
                if rec['result'] == 'not_reported':
                    rec['result'] = 'SURVIVED' if ok else 'killed_by_existing_tests_only'
        open(os.path.join(a.repo, rel), 'w').write(original)
        rec['secs'] = round(time.time() - t0)
        out.write(json.dumps(rec) + '\n')
        out.flush()
        print(n, rec['result'], rel, rec['line'], '|', rec['before'][:70], '=>', rec['after'][:70], flush=True)


if __name__ == '__main__':
    main()
