#!/bin/bash
# For every seeded change: apply it to /repo, run its property's quick check, keep the shrunk failing case as a
# regression input (regress/<ID>/seed-<dir>.json), revert.  A regression input must pass on the unchanged tree.
set -u
cd /verif
for d in seeded/*/; do
  n=$(basename "$d"); id=$(python3 -c "import json;print(json.load(open('$d/meta.json')).get('breaks_property'))")
  [ -f "regress/$id/seed-$n.json" ] && continue
  rm -rf replays
  (cd /repo && git diff --quiet && git apply "/verif/$d/patch.diff") || { echo "$n: cannot apply"; continue; }
  ./check "$id" quick > /tmp/seed_regress.out 2>&1
  (cd /repo && git checkout -- .)
  f=$(ls replays/*.json 2>/dev/null | head -1)
  if [ -n "$f" ]; then mkdir -p "regress/$id"; cp "$f" "regress/$id/seed-$n.json"; echo "$n: kept $(basename $f)"; else echo "$n: NOT CAUGHT"; fi
done
rm -rf replays
