#!/bin/bash
# usage: tools/seed_eval.sh <seeded-dir> [check ids...]   (default: the property in meta.json)
# Applies <seeded-dir>/patch.diff to /repo, runs the quick check(s), reverts.  Prints one line per check.
set -u
d="$(cd "$1" && pwd)"; shift
ids="$*"
if [ -z "$ids" ]; then ids=$(python3 -c "import json,sys;print(json.load(open('$d/meta.json'))['property'])"); fi
cd /repo || exit 2
if ! git diff --quiet; then echo "/repo has uncommitted changes; refusing"; exit 2; fi
git apply "$d/patch.diff" || { echo "patch does not apply"; exit 2; }
for id in $ids; do
  out=$(/verif/check "$id" quick 2>&1 | grep -E "VIOLATION|^OK|BUILD-FAILED|INCONCLUSIVE|violation in" | head -3 | tr '\n' ' ' | cut -c1-400)
  echo "$id: $out"
done
git checkout -- . && git status --short | head -3
