#!/usr/bin/env python3
"""For every seeded change without a recorded framework result (or all with --all): apply it to /repo, run its property's quick
check, record what the framework reported in meta.json, keep the shrunk failing case as regress/<ID>/seed-<dir>.json, revert.
Histories (what was missed first and what was added) come from tools/seed_histories.json, keyed by directory name."""
import json, os, subprocess, sys, glob, shutil
root = '/verif/seeded'
hist = json.load(open('/verif/tools/seed_histories.json')) if os.path.exists('/verif/tools/seed_histories.json') else {}
todo_all = '--all' in sys.argv
only = [a for a in sys.argv[1:] if not a.startswith('--')]
if subprocess.run(['git', '-C', '/repo', 'diff', '--quiet']).returncode != 0:
    sys.exit('/repo has uncommitted changes; refusing')
for d in sorted(os.listdir(root)):
    mp = os.path.join(root, d, 'meta.json')
    if not os.path.exists(mp):
        continue
    if only and d not in only:
        continue
    m = json.load(open(mp))
    if d in hist:
        m['framework_history'] = hist[d]
    if 'framework_result' in m and not todo_all and not only:
        json.dump(m, open(mp, 'w'), indent=1)
        continue
    pid = m.get('breaks_property', m.get('property'))
    shutil.rmtree('/verif/replays', ignore_errors=True)
    if subprocess.run(['git', '-C', '/repo', 'apply', os.path.join(root, d, 'patch.diff')]).returncode != 0:
        print(d, 'patch does not apply'); continue
    try:
        out = subprocess.run(['/verif/check', pid, 'quick'], capture_output=True, text=True).stdout
    finally:
        subprocess.run(['git', '-C', '/repo', 'checkout', '--', '.'])
    lines = [l for l in out.splitlines() if l.startswith(('violation in', 'VIOLATION', 'regression case', 'OK ', 'INCONCLUSIVE', 'BUILD-FAILED'))]
    caught = any(l.startswith('VIOLATION') for l in lines)
    first = next((l for l in lines if l.startswith(('violation in', 'regression case'))), lines[0] if lines else '')
    m['framework_result'] = {'command': 'tools/seed_eval.sh seeded/' + d, 'output': first[:600], 'caught': caught}
    json.dump(m, open(mp, 'w'), indent=1)
    reps = sorted(glob.glob('/verif/replays/*.json'))
    if reps:
        os.makedirs(f'/verif/regress/{pid}', exist_ok=True)
        shutil.copy(reps[0], f'/verif/regress/{pid}/seed-{d}.json')
    print(d, 'caught' if caught else 'NOT CAUGHT', '|', first[:160])
shutil.rmtree('/verif/replays', ignore_errors=True)
