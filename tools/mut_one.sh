#!/bin/bash
# usage: tools/mut_one.sh <file under /repo> <line> <sed-expression> <check ids...>   — applies a one-line change to /repo, runs the quick checks, reverts
set -u
f="$1"; line="$2"; expr="$3"; shift 3
cd /repo || exit 2
git diff --quiet || { echo "/repo dirty"; exit 2; }
sed -i "${line}${expr}" "$f"
git diff --stat | tail -1
git diff | grep -E "^[-+] " | head -4
for id in "$@"; do
  out=$(/verif/check "$id" quick 2>&1 | grep -E "VIOLATION|^OK|BUILD-FAILED|INCONCLUSIVE|violation in|regression case" | head -2 | tr '\n' ' ' | cut -c1-330)
  echo "  $id: $out"
  case "$out" in *VIOLATION*) break;; esac
done
git checkout -- . 
