#!/bin/bash
# usage: tools/seed_setup.sh <round-dir under /tmp> <ID>...   — one scratch worktree of /repo HEAD per property,
# holding SEED/PROPERTY.json (that property's record, nothing else from /verif).
set -u
root="$1"; shift
mkdir -p "$root"
for id in "$@"; do
  wt="$root/$id"
  [ -d "$wt" ] && { echo "$wt exists"; continue; }
  git -C /repo worktree add --detach "$wt" HEAD >/dev/null 2>&1 || { echo "cannot add $wt"; continue; }
  mkdir -p "$wt/SEED/demo"
  python3 - "$id" "$wt/SEED/PROPERTY.json" <<'PY'
import json,sys
for l in open('/verif/properties.jsonl'):
    p=json.loads(l)
    if p['id']==sys.argv[1]:
        json.dump(p,open(sys.argv[2],'w'),indent=1)
PY
  echo "$wt ready"
done
