#!/usr/bin/env python3
"""Regenerates DESIGN.md section 9.7 (the rule each check applies today) from the check definitions (`wpv rules`)."""
import subprocess, re
out = subprocess.run(['/verif/harness/target/release/wpv', 'rules'], capture_output=True, text=True, check=True).stdout
head = ("### 9.7 The checks as they stand (generated from the check definitions; supersedes §3 where they differ)\n\n"
        "`tools/design_rules.py` rewrites this section from `wpv rules`, i.e. from the `rule` / `assumptions` strings that are also\n"
        "written into every evidence file.\n\n")
s = open('/verif/DESIGN.md').read()
sec = head + out.strip() + "\n"
m = re.search(r'### 9\.7 The checks as they stand.*?(?=\n### |\n## |\Z)', s, re.S)
s = s[:m.start()] + sec + s[m.end():] if m else s.rstrip('\n') + "\n\n" + sec
open('/verif/DESIGN.md', 'w').write(s)
print("section 9.7 written,", len(out.split('#### ')) - 1, "checks")
