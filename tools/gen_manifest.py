#!/usr/bin/env python3
"""Regenerates /verif/MANIFEST.json from the table below (keeps it schema-valid at all times)."""
import json, os, subprocess
ROOT = os.path.dirname(os.path.dirname(os.path.abspath(__file__)))
ALL = ["C%02d" % i for i in range(1, 21)]

# id -> (technique, level text, level note, design ref)
NSVM = "Trusts: native execution of the real entrypoint (nsvm: BPF-loader input format, commit-on-success, CPI to the real SPL Token / Token-2022 / ATA / memo processors, 60-line system program, Metaplex stub), five shims changing only off-chain branches, x86-64 vs SBF agreement on safe integer code. Search, not proof."
HIST = "stateful property-based testing: proptest-generated operation histories executed through the real program entrypoint, "
CLAIMED = {
 "C01": (HIST + "BigUint claims-inequality oracle at every prefix + drain replay judged by the real SPL Token processor + closed-run no-extraction relation",
         "Every prefix of every generated history is checked against three independent oracles (claims inequality from independently decoded accounts, full drain on a clone in a generated order, no-gain over closed swap runs incl. exact reverse swaps). Generated search with shrinking; not exhaustive.",
         NSVM, "DESIGN.md §3 C01"),
 "C02": ("property-based testing of compute_swap against an exact rational (BigUint) curve oracle with cost-targeted amount generators",
         "16 M (quick) generated steps over the full u64/u128 domains, amounts aimed at the exact cost of reaching the target ±2; oracle = exact curve amounts, rounding direction, one-unit tightness, budget consumption. Only Ok results constrained, as the property states.",
         "Trusts x86-64 vs SBF agreement on safe integer code; direction flag as passed by the callers.", "DESIGN.md §3 C02"),
 "C03": (HIST + "then one generated swap (single v1/v2 or two-hop) re-executed on clones with thresholds realised-1 / realised / realised+1 / 0 / u64::MAX; oracle from balance deltas and pool price",
         "Accept <=> threshold admits the realised amount, decided on every generated case at the exact boundary; amount, direction, bound and limit clauses from balance deltas on states reached by generated histories, SPL Token and Token-2022 pools, single and two-hop.",
         NSVM, "DESIGN.md §3 C03"),
 "C04": ("fault-injection table over generated worlds: every privileged instruction x {missing signature, other signer, other role's authority, delegate 0/1/2, token moved to a new holder}, executed through the real entrypoint with the real token programs",
         "The complete table of 52 privileged instructions (Anchor- and Pinocchio-dispatched) is enumerated on every generated world; each mutant call must fail, with positive controls (baseline, 1-token delegate, new holder) proving the harness reaches the check.",
         NSVM, "DESIGN.md §3 C04"),
 "C05": (HIST + "harness ledger of requested liquidity deltas vs independently decoded pool / tick-array bytes after every instruction",
         "After every successful instruction the pool's liquidity, every one of the 88 slots of every tick array (both encodings, decoded by the harness) and every position are compared with sums over a harness-side ledger.",
         NSVM, "DESIGN.md §3 C05"),
 "C06": (HIST + "per-step fee/protocol-cut/LP-growth formulas (H2 trace) vs pool fields, balance deltas of every token account and the Traded event; hook-free re-derivation on single-segment swaps",
         "Every successful swap of every history is decomposed step by step and reconciled exactly with account deltas, pool accumulators and the emitted event; protocol-fee collection pays exactly what is owed.",
         NSVM + " H2 trace hook, cross-validated hook-free.", "DESIGN.md §3 C06"),
 "C07": (HIST + "exact pro-rata fee ledger (2^-192 fixed-point enclosure) with a derived two-sided rounding bound at every crediting",
         "Two-sided bound: credited <= exact share and shortfall <= derived rounding slack, for every position at every crediting point, with accumulators started anywhere in u128.",
         NSVM + " H2 trace for per-step LP fee (formula decided by C06).", "DESIGN.md §3 C07"),
 "C15": ("account-substitution table over generated worlds: every account slot of every fund-moving instruction replaced by a well-formed account of the same type from another pool / mint / position / reward index / program",
         "Slot tables for all fund-moving instructions (single, adaptive and two-hop swaps, all liquidity instructions, collects, reward emissions) are enumerated on every generated world; every substituted call must fail while the baseline succeeds.",
         NSVM, "DESIGN.md §3 C15"),
 "C17": ("differential/metamorphic property-based testing: two-hop on clone A vs the two single swaps on clone B over two generated pool histories; byte equality of the complete account store; failure equivalences",
         "Every well-formed generated two-hop that succeeds is compared byte for byte (all accounts) with its two single swaps; mismatching intermediates, failing legs, same-pool and no-shared-mint routes and thresholds missed by one must be rejected.",
         NSVM, "DESIGN.md §3 C17"),
 "C18": ("model-based stateful property testing: generated position lifecycles (4 position kinds, 256 bundle indexes, sentinel bounds) with a model that predicts accept/reject exactly and checks post-conditions on decoded accounts",
         "Accept/reject of open / close / reset-range / lock / transfer-locked / bundle operations is predicted exactly by a model written from the statement, on every operation of every generated lifecycle; locked positions must refuse decrease / reposition and allow collects; bundle bitmap compared with the model after every op.",
         NSVM + " Metaplex CPI of *_with_metadata is a stub.", "DESIGN.md §3 C18"),
 "C19": ("property-based testing: boundary-biased init/set sequences with a bank-wide bounds scan after every instruction; generated Token-2022 mint TLV bytes x badge states offered to the three admitting instructions against the stated admission rule",
         "Every program-owned parameter account is re-checked against the published bounds after every generated instruction; numeric setters must accept exactly the in-bound values; a pool or reward over a mint the stated rule excludes is a violation (safety direction).",
         NSVM + " Mint bytes are assembled directly.", "DESIGN.md §3 C19"),
 "C09": ("exhaustive enumeration of all 887,273 ticks + proptest-generated sqrt-prices against an exact-integer oracle",
         "Forward domain decided exhaustively (every tick: monotone, endpoints, exact 2^-32 ratio inequality, inverse at p(t), p(t)±1); inverse domain by generated prices with the bracket oracle p(t)<=x<p(t+1). Search, not proof, for the 2^96-sized price domain.",
         "Trusts that x86-64 and SBF code generation agree on safe integer code.", "DESIGN.md §3 C09"),
 "C11": (HIST + "harness-owned clock, exact emission ledger per reward and position, exact comparison of growth accumulators, min(owed, vault) and one-day funding rules",
         "Reward growth is recomputed exactly at every updating instruction; credited rewards are bounded on both sides by the exact pro-rata share; timestamp monotonicity, collection and rate-change rules checked on every occurrence.",
         NSVM, "DESIGN.md §3 C11"),
}
NOT_YET = "check not built yet in this session (designed in DESIGN.md §3); not claimed until its check exists"

def main():
    hooks = subprocess.run(["git", "-C", "/repo", "log", "--format=%H %s", "--grep=^verif hook"], capture_output=True, text=True).stdout.strip().splitlines()
    m = {
        "version": 1,
        "setup_cmd": "cd /verif/harness && CARGO_NET_OFFLINE=true cargo build --release",
        "hooks": {
            "guard": "cargo feature `verif` of programs/whirlpool",
            "enable": "the harness depends on whirlpool = { path = \"/repo/programs/whirlpool\", features = [\"verif\"] }; every check runs `cargo build --release` in /verif/harness first, which rebuilds the program and the SDK from /repo's working tree",
            "baseline_off_cmd": "cd /repo && cargo test --workspace --no-fail-fast --offline",
            "source_commits": [h.split()[0] for h in hooks],
            "add_only": True,
        },
        "engines": [
            {"name": "wpv", "path": "/verif/harness", "serves_properties": sorted(CLAIMED),
             "kind_free_text": "Rust harness: native execution of the real program entrypoint (nsvm) + real SPL processors, proptest generators with fixed case counts on 16 workers, BigUint reference models, shrinking to JSON replay files"},
        ],
        "checks": [],
        "not_applicable": [{"property_id": i, "reason": NOT_YET} for i in ALL if i not in CLAIMED],
        "notes": "All checks: /verif/check <ID> <tier>; exit 0 held / 1 VIOLATION / 2 build failure or watchdog (inconclusive). VERIF_SEED selects the PRNG stream; case counts are fixed per tier.",
    }
    for i in sorted(CLAIMED):
        tech, text, note, ref = CLAIMED[i]
        m["checks"].append({
            "property_id": i,
            "quick_cmd": f"/verif/check {i} quick",
            "thorough_cmd": f"/verif/check {i} thorough",
            "evidence_file": f"/verif/evidence/{i}.json",
            "replay_cmd_template": f"/verif/check {i} --replay {{path}}",
            "engine": "wpv",
            "level_claimed": {"category": "exploration", "text": text, "design_ref": ref},
            "level_note": note,
            "technique": tech,
        })
    json.dump(m, open(os.path.join(ROOT, "MANIFEST.json"), "w"), indent=1)
    print("MANIFEST.json written:", len(m["checks"]), "checks,", len(m["not_applicable"]), "not claimed")

if __name__ == "__main__":
    main()
