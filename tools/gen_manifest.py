#!/usr/bin/env python3
"""Regenerates /verif/MANIFEST.json from the table below (keeps it schema-valid at all times)."""
import json, os, subprocess
ROOT = os.path.dirname(os.path.dirname(os.path.abspath(__file__)))
ALL = ["C%02d" % i for i in range(1, 21)]

# id -> (technique, level text, level note, design ref)
CLAIMED = {
 "C09": ("exhaustive enumeration of all 887,273 ticks + proptest-generated sqrt-prices against an exact-integer oracle",
         "Forward domain decided exhaustively (every tick: monotone, endpoints, exact 2^-32 ratio inequality, inverse at p(t), p(t)±1); inverse domain by generated prices with the bracket oracle p(t)<=x<p(t+1). Search, not proof, for the 2^96-sized price domain.",
         "Trusts that x86-64 and SBF code generation agree on safe integer code.", "DESIGN.md §3 C09"),
}
NOT_YET = "check not built yet in this session (designed in DESIGN.md §3); not claimed until its check exists"

def main():
    hooks = subprocess.run(["git", "-C", "/repo", "log", "--format=%H %s", "--grep=^verif hook"], capture_output=True, text=True).stdout.strip().splitlines()
    m = {
        "version": 1,
        "setup_cmd": "cd /verif/harness && CARGO_NET_OFFLINE=true cargo build --release",
        "hooks": {
            "guard": "cargo feature `verif` of programs/whirlpool",
            "enable": "the harness depends on whirlpool = { path = \"/repo/programs/whirlpool\", features = [\"verif\"] }; every check runs `cargo build --release` in /verif/harness first, which rebuilds the program and the SDK from /repo's working tree",
            "baseline_off_cmd": "cd /repo && cargo test --workspace --no-fail-fast --offline",
            "source_commits": [h.split()[0] for h in hooks],
            "add_only": True,
        },
        "engines": [
            {"name": "wpv", "path": "/verif/harness", "serves_properties": sorted(CLAIMED),
             "kind_free_text": "Rust harness: native execution of the real program entrypoint (nsvm) + real SPL processors, proptest generators with fixed case counts on 16 workers, BigUint reference models, shrinking to JSON replay files"},
        ],
        "checks": [],
        "not_applicable": [{"property_id": i, "reason": NOT_YET} for i in ALL if i not in CLAIMED],
        "notes": "All checks: /verif/check <ID> <tier>; exit 0 held / 1 VIOLATION / 2 build failure or watchdog (inconclusive). VERIF_SEED selects the PRNG stream; case counts are fixed per tier.",
    }
    for i in sorted(CLAIMED):
        tech, text, note, ref = CLAIMED[i]
        m["checks"].append({
            "property_id": i,
            "quick_cmd": f"/verif/check {i} quick",
            "thorough_cmd": f"/verif/check {i} thorough",
            "evidence_file": f"/verif/evidence/{i}.json",
            "replay_cmd_template": f"/verif/check {i} --replay {{path}}",
            "engine": "wpv",
            "level_claimed": {"category": "exploration", "text": text, "design_ref": ref},
            "level_note": note,
            "technique": tech,
        })
    json.dump(m, open(os.path.join(ROOT, "MANIFEST.json"), "w"), indent=1)
    print("MANIFEST.json written:", len(m["checks"]), "checks,", len(m["not_applicable"]), "not claimed")

if __name__ == "__main__":
    main()
